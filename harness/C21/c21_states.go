package states

import (
	"math/big"

	"github.com/laizy/bigint"
	"github.com/ontio/ontology/common"
)

// Harness_C21_balance_item: token balance <-> storage item round trip, through the item's own byte codec.
func Harness_C21_balance_item() {
	v := nondetBig("bal", param("bits"))
	assume(v.Sign() >= 0)
	// precondition of the type: the whole-token part fits a uint64 (balances never exceed the token supply;
	// MustToStorageItem panics by design beyond that)
	limit := new(big.Int).Mul(new(big.Int).Lsh(big.NewInt(1), 64), big.NewInt(ScaleFactor))
	assume(bigLt(v, limit))
	bal := NativeTokenBalance{Balance: bigint.New(v)}
	item := bal.MustToStorageItem()
	raw := item.ToArray()
	item2 := new(StorageItem)
	err := item2.Deserialization(common.NewZeroCopySource(raw))
	assert(err == nil, "item-decodes")
	back, err2 := NativeTokenBalanceFromStorageItem(item2)
	assert(err2 == nil, "balance-decodes")
	assert(bigEq(back.Balance.BigInt(), v), "balance-roundtrip")
	// canonical: whole-token balances use the legacy 8-byte form, fractional ones the decimal-9 form
	assert((item.StateVersion == DefaultVersion) == !bal.IsFloat(), "version-matches-fraction")
}
