package common

import "math/big"

// C21: numeric encodings round-trip exactly and are minimal.

// Harness_C21_neo_roundtrip: BigIntFromNeoBytes(BigIntToNeoBytes(v)) == v and the encoding is minimal.
func Harness_C21_neo_roundtrip() {
	v := nondetBig("v", param("bits"))
	enc := BigIntToNeoBytes(v)
	dec := BigIntFromNeoBytes(enc)
	assert(bigEq(dec, v), "neo-roundtrip")
	n := len(enc)
	if v.Sign() == 0 {
		assert(n == 0, "zero-is-empty")
	}
	if n >= 2 {
		// no redundant sign byte
		red0 := and(enc[n-1] == 0x00, enc[n-2] < 0x80)
		redF := and(enc[n-1] == 0xFF, enc[n-2] >= 0x80)
		assert(!red0, "no-redundant-zero-byte")
		assert(!redF, "no-redundant-ff-byte")
	}
	if n == 1 {
		assert(enc[0] != 0, "single-zero-byte-not-emitted")
	}
	if n >= 1 {
		// sign bit of the last byte is the sign of the value
		assert((enc[n-1] >= 0x80) == (v.Sign() < 0), "sign-bit")
	}
}

// Harness_C21_neo_bytes: decoding any byte string and re-encoding gives back the bytes exactly when they
// are minimal, and always a string that decodes to the same value (one canonical encoding per value).
func Harness_C21_neo_bytes() {
	n := nondetRange("n", param("maxlen")+1)
	b := nondetBytes("b", n)
	v := BigIntFromNeoBytes(b)
	enc := BigIntToNeoBytes(v)
	minimal := true
	if n == 1 && b[0] == 0 {
		minimal = false
	}
	if n >= 2 {
		if b[n-1] == 0x00 && b[n-2] < 0x80 {
			minimal = false
		}
		if b[n-1] == 0xFF && b[n-2] >= 0x80 {
			minimal = false
		}
	}
	if minimal {
		assert(bytesEq(enc, b), "minimal-bytes-reencode-identically")
	} else {
		assert(len(enc) < n, "non-minimal-bytes-reencode-shorter")
	}
	assert(bigEq(BigIntFromNeoBytes(enc), v), "reencoded-decodes-to-same-value")
}

// Harness_C21_i128: I128 <-> big.Int conversions are lossless and reject out-of-range values.
func Harness_C21_i128() {
	v := nondetBig("v", 130)
	i, err := I128FromBigInt(v)
	lim := new(big.Int).Lsh(big.NewInt(1), 127)
	inRange := and(bigLe(new(big.Int).Neg(lim), v), bigLt(v, lim))
	assert((err == nil) == inRange, "i128-range-check-exact")
	if err == nil {
		assert(bigEq(i.ToBigInt(), v), "i128-roundtrip")
	}
}

func Harness_C21_i128_small() {
	x := nondetI64("x")
	assert(bigEq(I128FromInt64(x).ToBigInt(), bigFromI64(x)), "i128-from-int64")
	y := nondetU64("y")
	assert(bigEq(I128FromUint64(y).ToBigInt(), bigFromU64(y)), "i128-from-uint64")
	// bytes -> big -> bytes
	var raw I128
	copy(raw[:], nondetBytes("raw", I128_SIZE))
	back, err := I128FromBigInt(raw.ToBigInt())
	assert(err == nil, "i128-bytes-always-in-range")
	assert(back == raw, "i128-bytes-roundtrip")
}
