package utils

import "github.com/ontio/ontology/common"

// Harness_C21_native_varuint: EncodeVarUint/DecodeVarUint round-trip for every uint64, consuming everything.
func Harness_C21_native_varuint() {
	v := nondetU64("v")
	sink := common.NewZeroCopySink(nil)
	EncodeVarUint(sink, v)
	src := common.NewZeroCopySource(sink.Bytes())
	r, err := DecodeVarUint(src)
	assert(err == nil, "decode-ok")
	assert(r == v, "native-varuint-roundtrip")
	assert(src.Len() == 0, "exhausted")
	src2 := common.NewZeroCopySource(sink.Bytes())
	r2, err2 := DecodeVarUintWrapping(src2)
	assert(err2 == nil, "decode-wrapping-ok")
	assert(r2 == v, "native-varuint-wrapping-roundtrip")
}

// Harness_C21_native_varuint_reject: DecodeVarUint accepts a byte string only if it denotes a value in
// [0, 2^64) and then returns exactly that value.
func Harness_C21_native_varuint_reject() {
	n := nondetRange("n", 11)
	body := nondetBytes("b", n)
	buf := append([]byte{byte(n)}, body...)
	src := common.NewZeroCopySource(buf)
	r, err := DecodeVarUint(src)
	exact := common.BigIntFromNeoBytes(body)
	if err == nil {
		assert(exact.Sign() >= 0, "accepted-nonnegative")
		assert(exact.IsUint64(), "accepted-fits-u64")
		assert(bigEq(bigFromU64(r), exact), "accepted-value-exact")
	} else {
		assert(or(exact.Sign() < 0, !exact.IsUint64()), "rejected-only-out-of-range")
	}
}
