package common

// C18: primitive binary codec round-trips, is canonical and never panics.

// Harness_C18_roundtrip_ints: every fixed-width primitive written by the sink reads back identically
// and the source is exhausted afterwards.
func Harness_C18_roundtrip_ints() {
	u8, u16, u32, u64 := nondetU8("u8"), nondetU16("u16"), nondetU32("u32"), nondetU64("u64")
	i16, i32, i64 := nondetI16("i16"), nondetI32("i32"), nondetI64("i64")
	b := nondetBool("b")
	sink := NewZeroCopySink(nil)
	sink.WriteUint8(u8)
	sink.WriteUint16(u16)
	sink.WriteUint32(u32)
	sink.WriteUint64(u64)
	sink.WriteInt16(i16)
	sink.WriteInt32(i32)
	sink.WriteInt64(i64)
	sink.WriteBool(b)
	src := NewZeroCopySource(sink.Bytes())
	r8, e1 := src.NextUint8()
	r16, e2 := src.NextUint16()
	r32, e3 := src.NextUint32()
	r64, e4 := src.NextUint64()
	s16, e5 := src.NextInt16()
	s32, e6 := src.NextInt32()
	s64, e7 := src.NextInt64()
	rb, irr, e8 := src.NextBool()
	assert(!e1, "no-eof-u8")
	assert(!e2, "no-eof-u16")
	assert(!e3, "no-eof-u32")
	assert(!e4, "no-eof-u64")
	assert(!e5, "no-eof-i16")
	assert(!e6, "no-eof-i32")
	assert(!e7, "no-eof-i64")
	assert(!e8, "no-eof-bool")
	assert(!irr, "bool-regular")
	assert(r8 == u8, "rt-u8")
	assert(r16 == u16, "rt-u16")
	assert(r32 == u32, "rt-u32")
	assert(r64 == u64, "rt-u64")
	assert(s16 == i16, "rt-i16")
	assert(s32 == i32, "rt-i32")
	assert(s64 == i64, "rt-i64")
	assert(rb == b, "rt-bool")
	assert(src.Len() == 0, "exhausted")
	_, eof := src.NextByte()
	assert(eof, "eof-after-end")
}

// Harness_C18_varuint_roundtrip: WriteVarUint/NextVarUint round-trip for every uint64, regular, size agrees.
func Harness_C18_varuint_roundtrip() {
	v := nondetU64("v")
	sink := NewZeroCopySink(nil)
	n := sink.WriteVarUint(v)
	assert(uint64(len(sink.Bytes())) == n, "size-returned")
	src := NewZeroCopySource(sink.Bytes())
	r, size, irregular, eof := src.NextVarUint()
	assert(!eof, "no-eof")
	assert(!irregular, "regular")
	assert(r == v, "rt-varuint")
	assert(size == n, "size-agrees")
	assert(src.Len() == 0, "exhausted")
}

// Harness_C18_varuint_canonical: for any 9 bytes, irregular <=> the encoding is longer than WriteVarUint(value).
func Harness_C18_varuint_canonical() {
	buf := nondetBytes("buf", 9)
	src := NewZeroCopySource(buf)
	v, size, irregular, eof := src.NextVarUint()
	assert(!eof, "no-eof-9-bytes")
	sink := NewZeroCopySink(nil)
	n := sink.WriteVarUint(v)
	assert(irregular == (size != n), "irregular-iff-not-minimal")
	assert(size >= n, "minimal-is-shortest")
	if !irregular {
		// canonical: re-encoding reproduces the consumed bytes
		assert(bytesEq(sink.Bytes(), buf[:size]), "reencode-equals-consumed")
	}
	assert(src.Pos() == size, "pos-is-size")
}

// Harness_C18_varbytes_roundtrip: var-bytes / string / address / hash round trip.
func Harness_C18_varbytes_roundtrip() {
	n := nondetRange("n", 5)
	data := nondetBytes("data", n)
	var addr Address
	copy(addr[:], nondetBytes("addr", ADDR_LEN))
	var h Uint256
	copy(h[:], nondetBytes("hash", UINT256_SIZE))
	sink := NewZeroCopySink(nil)
	sink.WriteVarBytes(data)
	sink.WriteAddress(addr)
	sink.WriteHash(h)
	sink.WriteString(string(data))
	src := NewZeroCopySource(sink.Bytes())
	rd, _, irr, eof := src.NextVarBytes()
	assert(!irr, "regular")
	assert(!eof, "no-eof")
	assert(bytesEq(rd, data), "rt-varbytes")
	ra, eof2 := src.NextAddress()
	assert(!eof2, "no-eof-addr")
	assert(ra == addr, "rt-address")
	rh, eof3 := src.NextHash()
	assert(!eof3, "no-eof-hash")
	assert(rh == h, "rt-hash")
	rs, _, irr4, eof4 := src.NextString()
	assert(!irr4, "regular-str")
	assert(!eof4, "no-eof-str")
	assert(rs == string(data), "rt-string")
	assert(src.Len() == 0, "exhausted")
}

// Harness_C18_robust: arbitrary buffer, arbitrary short script of reads; no panic, position stays in
// bounds, returned slices lie inside the buffer, eof exactly when the request exceeds the remainder.
func Harness_C18_robust() {
	blen := nondetRange("len", param("maxbuf")+1)
	buf := nondetBytes("buf", blen)
	src := NewZeroCopySource(buf)
	steps := param("steps")
	for i := 0; i < steps; i++ {
		before := src.Pos()
		remain := src.Len()
		assert(before <= src.Size(), "pos-in-bounds")
		assert(remain == src.Size()-before, "len-consistent")
		switch nondetRange("op", 12) {
		case 0:
			n := nondetU64("n")
			d, eof := src.NextBytes(n)
			assert(eof == (n > remain), "nextbytes-eof-iff-short")
			if !eof {
				assert(uint64(len(d)) == n, "nextbytes-len")
				assert(src.Pos() == before+n, "nextbytes-advance")
			} else {
				assert(uint64(len(d)) == remain, "nextbytes-eof-returns-rest")
			}
		case 1:
			n := nondetU64("n")
			eof := src.Skip(n)
			assert(eof == (n > remain), "skip-eof-iff-short")
		case 2:
			_, eof := src.NextByte()
			assert(eof == (remain == 0), "nextbyte-eof")
		case 3:
			_, eof := src.NextUint16()
			assert(eof == (remain < 2), "u16-eof")
		case 4:
			_, eof := src.NextUint32()
			assert(eof == (remain < 4), "u32-eof")
		case 5:
			_, eof := src.NextUint64()
			assert(eof == (remain < 8), "u64-eof")
		case 6:
			_, _, eof := src.NextBool()
			assert(eof == (remain == 0), "bool-eof")
		case 7:
			d, size, irr, eof := src.NextVarBytes()
			if !eof && !irr {
				assert(src.Pos() == before+size, "varbytes-size")
				assert(uint64(len(d)) <= remain, "varbytes-inside")
			}
		case 8:
			_, size, _, eof := src.NextVarUint()
			if !eof {
				assert(src.Pos() == before+size, "varuint-size")
			}
		case 9:
			_, eof := src.NextAddress()
			assert(eof == (remain < ADDR_LEN), "addr-eof")
		case 10:
			_, eof := src.NextHash()
			assert(eof == (remain < UINT256_SIZE), "hash-eof")
		case 11:
			_, err := src.ReadVarBytes()
			_ = err
		}
		assert(src.Pos() <= src.Size(), "pos-in-bounds-after")
	}
}

// Harness_C18_safemath: SafeAdd/SafeSub/SafeMul report overflow exactly.
func Harness_C18_safemath() {
	x, y := nondetU64("x"), nondetU64("y")
	s, o := SafeAdd(x, y)
	assert(o == (s < x), "safeadd-overflow-exact")
	d, u := SafeSub(x, y)
	assert(u == (x < y), "safesub-underflow-exact")
	if !u {
		assert(d+y == x, "safesub-value")
	}
}
