package ledgerstore

import (
	"time"
	"errors"

	ethtypes "github.com/ethereum/go-ethereum/core/types"
	ethparams "github.com/ethereum/go-ethereum/params"
	ethcommon "github.com/ethereum/go-ethereum/common"
	"github.com/ontio/ontology/common"
	"github.com/ontio/ontology/core/payload"
	"github.com/ontio/ontology/core/store"
	"github.com/ontio/ontology/core/types"
	"github.com/ontio/ontology/smartcontract"
	"github.com/ontio/ontology/smartcontract/context"
	"github.com/ontio/ontology/smartcontract/event"
	types3 "github.com/ontio/ontology/smartcontract/service/evm/types"
	"github.com/ontio/ontology/smartcontract/storage"
	"github.com/ontio/ontology/vm/evm"
)

// C42: pre-execution never changes persisted state.
// The real LedgerStoreImp.PreExecuteContract / PreExecuteContractBatch / PreExecuteEIP155 and the real
// StateStore / OverlayDB / CacheDB layering run on the LevelDB model of harness/C01.  The VMs are cut: the
// NeoVM/WASM engine and the EVM transaction processor are stand-ins that write arbitrary storage through the
// cache they are handed (and, for the EVM, commit it to that cache the way the real processor does).

type c42Engine struct{ sc *smartcontract.SmartContract }

func (e *c42Engine) Invoke() (interface{}, error) {
	n := nondetRange("vm.writes", param("maxwrites")+1)
	for i := 0; i < n; i++ {
		key := []byte{'k', nondetU8("vm.key")}
		if nondetBool("vm.delete") {
			e.sc.CacheDB.Delete(key)
		} else {
			e.sc.CacheDB.Put(key, []byte{nondetU8("vm.value")})
		}
	}
	if nondetBool("vm.fails") {
		return nil, errors.New("vm fault")
	}
	return nil, nil
}

func c42NewEngine(sc *smartcontract.SmartContract, code []byte, t types.TransactionType) (context.Engine, error) {
	return &c42Engine{sc}, nil
}

// stand-in for smartcontract/service/evm.ApplyTransaction
func c42ApplyTransaction(config *ethparams.ChainConfig, bc store.LedgerStore, statedb *storage.StateDB, blockHeight, timestamp uint32,
	tx *ethtypes.Transaction, usedGas *uint64, feeReceiver ethcommon.Address, cfg evm.Config, checkNonce bool) (*types3.ExecutionResult, *types.Receipt, error) {
	c := c42EvmCache
	c.Put([]byte{'k', nondetU8("evm.key")}, []byte{nondetU8("evm.value")})
	c.Commit()
	if nondetBool("evm.fails") {
		return nil, nil, errors.New("evm error")
	}
	return &types3.ExecutionResult{}, &types.Receipt{}, nil
}

var c42EvmCache *storage.CacheDB

func c42NewStateDB(cache *storage.CacheDB, thash, bhash ethcommon.Hash, h storage.OngBalanceHandle) *storage.StateDB {
	c42EvmCache = cache
	return &storage.StateDB{}
}

func c42EthHash(tx *ethtypes.Transaction) ethcommon.Hash { return ethcommon.Hash{} }

func c42Tx(kind int) *types.Transaction {
	if kind == 2 {
		return &types.Transaction{TxType: types.EIP155, Payload: &payload.EIP155Code{EIPTx: &ethtypes.Transaction{}}}
	}
	if kind == 1 {
		return &types.Transaction{TxType: types.Deploy, Payload: &payload.DeployCode{}}
	}
	return &types.Transaction{TxType: types.InvokeNeo, Payload: &payload.InvokeCode{Code: []byte{nondetU8("code")}}}
}

func Harness_C42_preexec_changes_nothing() {
	c01DBs = nil
	c01 = &c01Model{left: 100}
	node := c01NewNode(false, 0)
	ref := c01NewNode(false, 0)
	assert(node.open() == nil && ref.open() == nil, "c42-open")
	var prev common.Uint256
	h := uint32(1)
	for i := uint32(0); i <= h; i++ {
		b := c01MkBlock(ref.ls, i, c39U256x("txroot"), prev)
		prev = b.Hash()
		assert(ref.ls.saveBlock(b, nil, common.Uint256{}) == nil && node.ls.saveBlock(b, nil, common.Uint256{}) == nil, "c42-history")
	}
	// any number of pre-executions of any kind on the node only
	n := 1 + nondetRange("calls", param("maxcalls"))
	for i := 0; i < n; i++ {
		kind := nondetRange("kind", 3)
		if nondetBool("batch") {
			node.ls.PreExecuteContractBatch([]*types.Transaction{c42Tx(kind), c42Tx(0)}, nondetBool("atomic"))
		} else {
			node.ls.PreExecuteContract(c42Tx(kind))
		}
	}
	cover("c42-preexecuted")
	c01SameDB(ref.st, node.st, "state-store-unchanged")
	c01SameDB(node.st, ref.st, "state-store-unchanged")
	c01SameDB(ref.blk, node.blk, "block-store-unchanged")
	c01SameDB(node.blk, ref.blk, "block-store-unchanged")
	c01SameDB(ref.ev, node.ev, "event-store-unchanged")
	c01SameDB(node.ev, ref.ev, "event-store-unchanged")
	assert(node.ls.GetCurrentBlockHeight() == h, "height-unchanged")
	// the next block commits identically on a node that never pre-executed anything
	next := c01MkBlock(ref.ls, h+1, c39U256x("txroot"), prev)
	// ... even when a (non-atomic) pre-execution request is served while that block is being committed:
	// the request runs between the stores' NewBatch and CommitTo (scheduled at the prune step of submitBlock)
	assert(ref.ls.saveBlock(next, nil, common.Uint256{}) == nil, "c42-reference-next-commits")
	if nondetBool("concurrent") {
		kind := nondetRange("kind.concurrent", 3)
		c42Hook = func() { node.ls.PreExecuteContract(c42Tx(kind)) }
	}
	assert(node.ls.saveBlock(next, nil, common.Uint256{}) == nil, "c42-next-commits")
	c42Hook = nil
	c01SameDB(ref.st, node.st, "state-after-next-block-equals-node-without-preexec")
	c01SameDB(node.st, ref.st, "state-after-next-block-equals-node-without-preexec")
}

func c39U256x(tag string) common.Uint256 {
	var u common.Uint256
	copy(u[:], nondetBytes(tag, 32))
	return u
}

func c42Notify(r *types.Receipt) *event.ExecuteNotify { return &event.ExecuteNotify{} }

func c42Now() time.Time { return time.Time{} }

var c42Hook func()

// stub for LedgerStoreImp.tryPruneBlock (pruning is off): the point inside submitBlock, after the batches
// were opened and filled and before they are committed, where a concurrent request may be scheduled
func c42Prune(ls *LedgerStoreImp, header *types.Header) bool {
	if c42Hook != nil {
		h := c42Hook
		c42Hook = nil
		h()
	}
	return false
}

// executeBlock stand-in for this property: like the real executeBlock it builds the block's write set in an
// overlay obtained from the state store (so that a pre-execution sharing or recycling that overlay is visible).
func c42Exec(ls *LedgerStoreImp, block *types.Block) (store.ExecuteResult, error) {
	ov := ls.stateStore.NewOverlayDB()
	ov.Put([]byte{0x05, 'b', 'a', 'l'}, block.Header.TransactionsRoot[:8])
	ov.Put([]byte{0x05, 'h', byte(block.Header.Height)}, block.Header.TransactionsRoot[8:12])
	var res store.ExecuteResult
	res.WriteSet = ov.GetWriteSet()
	res.Hash = ov.ChangeHash()
	return res, nil
}
