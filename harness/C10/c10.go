package governance

import (
	"math/big"

	"github.com/ontio/ontology/common"
	"github.com/ontio/ontology/common/config"
	cstates "github.com/ontio/ontology/core/states"
	scom "github.com/ontio/ontology/core/store/common"
	"github.com/ontio/ontology/smartcontract/service/native"
	"github.com/ontio/ontology/smartcontract/storage"
)

// C10: the governance fee split never distributes more than it is splitting.
// Two cuts of the real code:
//   Harness_C10_node : splitNodeFee + executeAddressSplit + executePeerSplit for one node and its authorizers
//   Harness_C10_epoch: executeSplit2 (dapp share, consensus and candidate shares) with splitNodeFee recorded
// Storage getters are harness records. The proportional shares are products and quotients of symbolic
// 64-bit quantities; they are decided in non-linear integer arithmetic (engine back end "nia").

// ---- records ----

type c10Iter struct {
	items [][]byte
	pos   int
}

func (it *c10Iter) First() bool   { it.pos = 0; return len(it.items) > 0 }
func (it *c10Iter) Next() bool    { it.pos++; return it.pos < len(it.items) }
func (it *c10Iter) Key() []byte   { return nil }
func (it *c10Iter) Value() []byte { return it.items[it.pos] }
func (it *c10Iter) Release()      {}
func (it *c10Iter) Error() error  { return nil }

var c10Infos []*AuthorizeInfo
var c10PeerCost, c10StakeCost uint64
var c10Credit = map[common.Address]uint64{}

// the iterator hands out one record number per authorizer; AuthorizeInfo.Deserialization is bound to the
// record table (the byte codec of AuthorizeInfo is outside this check: it would only add 64-bit
// byte-assembly terms to every non-linear query)
func c10NewIterator(db *storage.CacheDB, key []byte) scom.StoreIterator {
	it := &c10Iter{}
	for i := range c10Infos {
		it.items = append(it.items, cstates.GenRawStorageItem([]byte{byte(i)}))
	}
	return it
}

func c10DeserializeInfo(this *AuthorizeInfo, source *common.ZeroCopySource) error {
	i, _ := source.NextByte()
	*this = *c10Infos[i]
	return nil
}

func c10GetPeerCost(native *native.NativeService, contract common.Address, peerPubkey string) (uint64, uint64, error) {
	return c10PeerCost, c10StakeCost, nil
}

func c10GetSplitFeeAddress(native *native.NativeService, contract common.Address, address common.Address) (*SplitFeeAddress, error) {
	return &SplitFeeAddress{Address: address, Amount: c10Credit[address]}, nil
}

func c10PutSplitFeeAddress(native *native.NativeService, contract common.Address, address common.Address, s *SplitFeeAddress) error {
	c10Credit[address] = s.Amount
	return nil
}

var c10Peer = common.Address{0xee}

// ---- arithmetic lemmas ----
// The split is a chain of proportional shares (x*y/z with all three symbolic). No back end decides the whole
// chain at once (probed 60 s per query), so it is cut into lemmas over FREE symbols, each decided on its own
// by Harness_C10_lemmas; Harness_C10_node then assumes the instances of these lemmas for the terms the real
// code computes (the harness writes the same expressions, which the engine's hash-consing maps to the very
// same solver terms) and checks the remaining, now linear, obligations.

func c10Real(v, a, t uint64) uint64 {
	return new(big.Int).Div(new(big.Int).Mul(new(big.Int).SetUint64(v), new(big.Int).SetUint64(a)), new(big.Int).SetUint64(t)).Uint64()
}

// L1: n*t/(i+t) <= n
func c10StakeFee(n, i, t uint64) uint64 {
	return new(big.Int).Div(new(big.Int).Mul(new(big.Int).SetUint64(n), new(big.Int).SetUint64(t)),
		new(big.Int).Add(new(big.Int).SetUint64(i), new(big.Int).SetUint64(t))).Uint64()
}

func Harness_C10_lemmas() {
	n, i, t := nondetU64("n"), nondetU64("i"), nondetU64("t")
	assume(n <= 1<<57 && i >= 1 && i <= 1<<30 && t <= 1<<30)
	switch nondetRange("lemma", 5) {
	case 0:
		cover("L1-reached")
		assert(c10StakeFee(n, i, t) <= n, "L1-stake-fee-within-node-amount")
	case 1:
		// L2: a part x <= n charged (100-c)% stays within x, for both cost percentages
		x := nondetU64("x")
		c := uint64(nondetU8("c"))
		assume(x <= n && c <= 100)
		cover("L2-reached")
		assert(x*(100-c)/100 <= x, "L2-percentage-share-within-the-part")
	case 2:
		// L3: the 64-bit (possibly wrapping) share never exceeds the exact share
		v, a := nondetU64("v"), nondetU64("a")
		assume(v <= t && t >= 1 && a <= n)
		cover("L3-reached")
		assert(v*a/t <= c10Real(v, a, t), "L3-wrapping-share-within-exact-share")
		assert(c10Real(v, a, t) <= a, "L3-exact-share-within-amount")
	case 3:
		// L4 (two authorizers): exact shares of positions adding up to at most t add up to at most a
		v1, v2, a := nondetU64("v1"), nondetU64("v2"), nondetU64("a")
		assume(t >= 1 && a <= n && v1 <= t && v2 <= t && v1+v2 <= t)
		cover("L4-2-reached")
		assert(c10Real(v1, a, t)+c10Real(v2, a, t) <= a, "L4-two-shares-within-amount")
	default:
		v1, v2, v3, a := nondetU64("v1"), nondetU64("v2"), nondetU64("v3"), nondetU64("a")
		assume(t >= 1 && a <= n && v1 <= t && v2 <= t && v3 <= t && v1+v2+v3 <= t)
		cover("L4-3-reached")
		assert(c10Real(v1, a, t)+c10Real(v2, a, t)+c10Real(v3, a, t) <= a, "L4-three-shares-within-amount")
	}
}


func Harness_C10_node() {
	n := param("authorizers")
	c10Infos = nil
	c10Credit = map[common.Address]uint64{}
	preCons, cons := nondetBool("preIfConsensus"), nondetBool("ifConsensus")
	initPos, totalPos := nondetU64("initPos"), nondetU64("totalPos")
	nodeAmount := nondetU64("nodeAmount")
	assume(nodeAmount <= 1<<57) // far above any epoch income (ONG supply 10^18 < 2^60); keeps amount*100 inside 64 bits
	c10PeerCost, c10StakeCost = uint64(nondetU8("peerCost")), uint64(nondetU8("stakeCost"))
	assume(c10PeerCost <= 100 && c10StakeCost <= 101) // setPeerCost enforces the range (101 encodes 0)
	// representation invariant of the peer pool: the positions that earn for this epoch add up to the
	// snapshot's TotalPos, and stakes are bounded by the ONT supply (10^9 < 2^30)
	assume(initPos >= 1 && initPos <= 1<<30 && totalPos <= 1<<30) // registerCandidate requires InitPos >= MinInitStake > 0
	sum := uint64(0)
	var addrs []common.Address
	for i := 0; i < n; i++ {
		a := &AuthorizeInfo{PeerPubkey: "aa", Address: common.Address{byte(i + 1)}}
		if nondetBool("is-the-node-owner") {
			a.Address = c10Peer
		}
		a.ConsensusPos, a.WithdrawConsensusPos = nondetU64("consensusPos"), nondetU64("withdrawConsensusPos")
		a.CandidatePos, a.WithdrawCandidatePos = nondetU64("candidatePos"), nondetU64("withdrawCandidatePos")
		assume(a.ConsensusPos <= 1<<30 && a.WithdrawConsensusPos <= 1<<30 && a.CandidatePos <= 1<<30 && a.WithdrawCandidatePos <= 1<<30)
		v := a.CandidatePos + a.WithdrawCandidatePos
		if cons || preCons {
			v = a.ConsensusPos + a.WithdrawConsensusPos
		}
		sum += v
		c10Infos = append(c10Infos, a)
		addrs = append(addrs, a.Address)
	}
	assume(sum <= totalPos)
	ns := &native.NativeService{Height: nondetU32("height")}
	// instances of the lemmas of Harness_C10_lemmas for the quantities splitNodeFee is about to compute
	{
		sc := c10StakeCost
		if sc == 0 {
			sc = c10PeerCost
		}
		if sc == 101 {
			sc = 0
		}
		var amount uint64
		if ns.Height > config.GetNewPeerCostHeight() {
			stakeFee := c10StakeFee(nodeAmount, initPos, totalPos)
			assume(stakeFee <= nodeAmount) // L1
			nodeFee := nodeAmount - stakeFee
			a1, a2 := stakeFee*(100-sc)/100, nodeFee*(100-c10PeerCost)/100
			assume(a1 <= stakeFee && a2 <= nodeFee) // L2
			amount = a1 + a2
		} else {
			amount = nodeAmount * (100 - c10PeerCost) / 100
			assume(amount <= nodeAmount) // L2
		}
		if totalPos >= 1 {
			total := uint64(0)
			for _, a := range c10Infos {
				v := a.CandidatePos + a.WithdrawCandidatePos
				if cons || preCons {
					v = a.ConsensusPos + a.WithdrawConsensusPos
				}
				r := c10Real(v, amount, totalPos)
				assume(v*amount/totalPos <= r && r <= amount) // L3
				total += r
			}
			assume(total <= amount) // L4
		}
	}
	err := splitNodeFee(ns, common.Address{}, "aa", c10Peer, preCons, cons, initPos, totalPos, nodeAmount)
	cover("c10-node-returned")
	assert(err == nil, "node-split-succeeds")
	if n > 0 && addrs[0] != c10Peer && c10Credit[addrs[0]] != 0 {
		cover("c10-authorizer-credited")
	}
	// conservation without wrap-around: the credits add up to exactly the amount being split
	total := bigFromU64(c10Credit[c10Peer])
	for i, a := range addrs {
		if a == c10Peer {
			continue
		}
		dup := false
		for j := 0; j < i; j++ {
			dup = dup || addrs[j] == a
		}
		if !dup {
			total = total.Add(total, bigFromU64(c10Credit[a]))
			assert(c10Credit[a] <= nodeAmount, "no-authorizer-credit-exceeds-the-node-amount")
		}
	}
	assert(c10Credit[c10Peer] <= nodeAmount, "node-owner-credit-does-not-wrap")
	assert(bigEq(total, bigFromU64(nodeAmount)), "credits-add-up-to-exactly-the-node-amount")
}

// ---- epoch level: executeSplit2 ----

var (
	c10Pool      *PeerPoolMap
	c10Balance   uint64
	c10SplitFee  uint64
	c10GP        *GlobalParam
	c10GP2       *GlobalParam2
	c10Gas       *GasAddress
	c10DappPaid  uint64
	c10NodePaid  []uint64
	c10CurveVals []uint64
	c10CurveNo   int
)

func c10GetConfig(native *native.NativeService, contract common.Address) (*Configuration, error) {
	return &Configuration{K: 2}, nil
}
func c10GetGlobalParam(native *native.NativeService, contract common.Address) (*GlobalParam, error) {
	return c10GP, nil
}
func c10GetGlobalParam2(native *native.NativeService, contract common.Address) (*GlobalParam2, error) {
	return c10GP2, nil
}
func c10GetPeerPoolMap(native *native.NativeService, contract common.Address, view uint32) (*PeerPoolMap, error) {
	return c10Pool, nil
}
func c10GetOngBalance(native *native.NativeService, a common.Address) (uint64, error) { return c10Balance, nil }
func c10GetSplitFee(native *native.NativeService, contract common.Address) (uint64, error) {
	return c10SplitFee, nil
}
func c10GetGasAddress(native *native.NativeService, contract common.Address) (*GasAddress, error) {
	return c10Gas, nil
}
func c10TransferOng(native *native.NativeService, from, to common.Address, amount uint64) error {
	c10DappPaid += amount
	return nil
}
func c10SplitCurve(native *native.NativeService, contract common.Address, pos, avg, yita uint64) (uint64, error) {
	v := c10CurveVals[c10CurveNo]
	c10CurveNo++
	return v, nil
}
func c10RecordNodeFee(native *native.NativeService, contract common.Address, peerPubkey string, peerAddress common.Address,
	preIfConsensus, ifConsensus bool, initPos, totalPos uint64, nodeAmount uint64) error {
	c10NodePaid = append(c10NodePaid, nodeAmount)
	return nil
}

func c10Share(amount *big.Int, w, sum uint64) uint64 {
	return new(big.Int).Div(new(big.Int).Mul(amount, new(big.Int).SetUint64(w)), new(big.Int).SetUint64(sum)).Uint64()
}

func Harness_C10_epoch_lemmas() {
	amt := nondetU64("amount")
	assume(amt <= 1<<60)
	a := new(big.Int).SetUint64(amt)
	switch nondetRange("lemma", 2) {
	case 0:
		// E1: a percentage p <= 100 of an amount stays within it
		p := uint64(nondetU8("p"))
		assume(p <= 100)
		cover("E1-reached")
		assert(new(big.Int).Div(new(big.Int).Mul(a, new(big.Int).SetUint64(p)), big.NewInt(100)).Uint64() <= amt, "E1-percentage-within-amount")
	default:
		// E2: weighted shares with weights adding up to the divisor add up to at most the amount
		w1, w2 := nondetU64("w1"), nondetU64("w2")
		assume(w1 <= 1<<40 && w2 <= 1<<40 && w1+w2 >= 1)
		cover("E2-reached")
		assert(c10Share(a, w1, w1+w2)+c10Share(a, w2, w1+w2) <= amt, "E2-two-weighted-shares-within-amount")
		if w1 >= 1 {
			assert(c10Share(a, w1, w1) <= amt, "E2-single-share-within-amount")
		}
	}
}

func Harness_C10_epoch() {
	// `peers` registered nodes: two consensus seats (K = 2), the rest candidates
	keys := []string{"aa", "bb", "cc", "dd", "ee"}[:param("peers")]
	c10Pool = &PeerPoolMap{PeerPoolMap: map[string]*PeerPoolItem{}}
	for i, k := range keys {
		it := &PeerPoolItem{Index: uint32(i + 1), PeerPubkey: k, Address: common.Address{byte(i + 1)}, Status: ConsensusStatus,
			InitPos: nondetU64("initPos"), TotalPos: nondetU64("totalPos")}
		if param("concrete_stakes") == 1 {
			// wide variant: stakes from a small table (the shares are then linear in the symbolic income)
			it.InitPos, it.TotalPos = uint64(len(keys)-i)*1000000, 0
		}
		assume(it.InitPos >= 1 && it.InitPos <= 1<<30 && it.TotalPos <= 1<<30)
		if i >= 2 {
			it.Status = CandidateStatus
		}
		c10Pool.PeerPoolMap[k] = it
	}
	c10Balance, c10SplitFee = nondetU64("balance"), nondetU64("splitFee")
	assume(c10Balance <= 1<<60 && c10SplitFee <= c10Balance)
	c10GP = &GlobalParam{A: uint32(nondetU8("A")), B: uint32(nondetU8("B")), Yita: 5}
	assume(c10GP.A+c10GP.B == 100) // updateGlobalParam enforces A + B == 100
	c10GP2 = &GlobalParam2{DappFee: uint32(nondetU8("dappFee")), CandidateFeeSplitNum: uint32(nondetRange("splitnum", param("peers")+1))}
	assume(c10GP2.DappFee <= 100) // updateGlobalParam2 enforces the range
	c10Gas = &GasAddress{}
	if nondetBool("gas-address-set") {
		c10Gas.Address = common.Address{0x77}
	}
	c10CurveVals = []uint64{nondetU64("s1"), nondetU64("s2")}
	if param("concrete_stakes") == 1 {
		c10CurveVals = []uint64{uint64(1 + nondetRange("s1.choice", 2)), 2}
	}
	assume(c10CurveVals[0] <= 1<<40 && c10CurveVals[1] <= 1<<40)
	c10CurveNo, c10DappPaid, c10NodePaid = 0, 0, nil
	income := c10Balance - c10SplitFee

	// lemma instances (Harness_C10_epoch_lemmas) for the quantities executeSplit2 computes
	{
		inc := new(big.Int).SetUint64(income)
		dapp := new(big.Int).Div(new(big.Int).Mul(inc, new(big.Int).SetUint64(uint64(c10GP2.DappFee))), new(big.Int).SetUint64(100))
		assume(dapp.Uint64() <= income) // E1
	}

	splitSum, err := executeSplit2(&native.NativeService{}, common.Address{}, 2)
	cover("c10-epoch-returned")
	if err != nil {
		return
	}
	total := new(big.Int).SetUint64(c10DappPaid)
	sum := uint64(0)
	for _, p := range c10NodePaid {
		total.Add(total, new(big.Int).SetUint64(p))
		sum += p
	}
	assert(splitSum == sum, "reported-split-sum-is-the-sum-of-node-amounts")
	assert(bigLe(total, new(big.Int).SetUint64(income)), "dapp-and-node-amounts-within-the-income")
}

// Harness_C10_epoch_wide: more registered nodes than paid candidates (stakes and curve weights from small
// tables, income and percentages symbolic) - the loop bounds of executeSplit2 against CandidateFeeSplitNum.
func Harness_C10_epoch_wide() { Harness_C10_epoch() }
