package ontid

import (
	"bytes"

	"github.com/ontio/ontology-crypto/keypair"
	"github.com/ontio/ontology/common"
	scom "github.com/ontio/ontology/core/store/common"
	"github.com/ontio/ontology/core/store/overlaydb"
	"github.com/ontio/ontology/core/types"
	"github.com/ontio/ontology/smartcontract/context"
	"github.com/ontio/ontology/smartcontract/event"
	"github.com/ontio/ontology/smartcontract/service/native"
	"github.com/ontio/ontology/smartcontract/service/native/utils"
	"github.com/ontio/ontology/smartcontract/storage"
)

// C45: only an ONT ID's authorized keys can change it (owner-key family of operations).
// The real contract code runs over the real CacheDB/OverlayDB on an empty store: the identity is set up by
// the real regIDWithPublicKey / addKeyByIndex / removeAuthKey / removeKeyByIndex / revokeID (with every
// witness granted), then ONE further operation runs with an arbitrary operator key index and an arbitrary
// set of witnessed keys.  Keys are ideal (engine/sym/crypto.go).

type c45Store struct{}

func (s *c45Store) Put(key []byte, value []byte) error               { return nil }
func (s *c45Store) Get(key []byte) ([]byte, error)                   { return nil, scom.ErrNotFound }
func (s *c45Store) Has(key []byte) (bool, error)                     { return false, nil }
func (s *c45Store) Delete(key []byte) error                          { return nil }
func (s *c45Store) NewBatch()                                        {}
func (s *c45Store) BatchPut(key []byte, value []byte)                {}
func (s *c45Store) BatchDelete(key []byte)                           {}
func (s *c45Store) BatchCommit() error                               { return nil }
func (s *c45Store) Close() error                                     { return nil }
func (s *c45Store) NewIterator(prefix []byte) scom.StoreIterator     { return nil }

type c45Ctx struct {
	addrs   []common.Address
	witness []bool
}

func (c *c45Ctx) PushContext(*context.Context) {}
func (c *c45Ctx) CurrentContext() *context.Context {
	return &context.Context{ContractAddress: utils.OntIDContractAddress}
}
func (c *c45Ctx) CallingContext() *context.Context { return nil }
func (c *c45Ctx) EntryContext() *context.Context   { return nil }
func (c *c45Ctx) PopContext()                      {}
func (c *c45Ctx) CheckWitness(a common.Address) bool {
	w := false
	for i := range c.addrs {
		w = or(w, and(c.addrs[i] == a, c.witness[i]))
	}
	return w
}
func (c *c45Ctx) PushNotifications([]*event.NotifyEventInfo) {}
func (c *c45Ctx) NewExecuteEngine([]byte, types.TransactionType) (context.Engine, error) {
	return nil, nil
}
func (c *c45Ctx) CheckUseGas(uint64) bool              { return true }
func (c *c45Ctx) GetGasInfo() (uint64, uint64)         { return 0, 0 }
func (c *c45Ctx) CheckExecStep() bool                  { return true }
func (c *c45Ctx) GetCallerAddress() []common.Address   { return nil }
func (c *c45Ctx) SetInternalErr()                      {}
func (c *c45Ctx) IsInternalErr() bool                  { return false }
func (c *c45Ctx) PutCrossStateHashes([]common.Uint256) {}

func c45VerifyID(id string) bool { return true }

var c45ID = []byte("did:ont:AAAA")

func c45Args(parts ...interface{}) []byte {
	sink := common.NewZeroCopySink(nil)
	for _, p := range parts {
		switch v := p.(type) {
		case []byte:
			utils.EncodeVarBytes(sink, v)
		case uint32:
			utils.EncodeVarUint(sink, uint64(v))
		}
	}
	return sink.Bytes()
}

func Harness_C45_owner_key_gate() {
	// three distinct abstract keys
	var blobs [][]byte
	var keys []keypair.PublicKey
	ctx := &c45Ctx{}
	for i := 0; i < 3; i++ {
		b := nondetBytes("key", 4)
		k, err := keypair.DeserializePublicKey(b)
		assume(err == nil)
		for _, o := range keys {
			assume(!keypair.ComparePublicKey(o, k))
		}
		for _, ob := range blobs {
			assume(!bytes.Equal(ob, b))
		}
		blobs, keys = append(blobs, b), append(keys, k)
		ctx.addrs = append(ctx.addrs, types.AddressFromPubKey(k))
		ctx.witness = append(ctx.witness, true)
	}
	overlay := overlaydb.NewOverlayDB(&c45Store{})
	cache := storage.NewCacheDB(overlay)
	srvc := &native.NativeService{CacheDB: cache, ContextRef: ctx, Height: 1 << 30, Time: 100}
	call := func(f func(*native.NativeService) ([]byte, error), args []byte) bool {
		srvc.Input = args
		_, err := f(srvc)
		return err == nil
	}
	// ---- history, every witness granted ----
	assert(call(regIdWithPublicKey, c45Args(c45ID, blobs[0])), "setup-register")
	nkeys := 1
	if nondetBool("setup.second-key") {
		assert(call(addKeyByIndex, c45Args(c45ID, blobs[1], uint32(1))), "setup-add-key")
		nkeys = 2
		if nondetBool("setup.promote-second-key") {
			assert(call(setAuthKey, c45Args(c45ID, uint32(2), uint32(1))), "setup-set-auth")
		}
	}
	if nondetBool("setup.demote-first-key") {
		call(removeAuthKey, c45Args(c45ID, uint32(1), uint32(1)))
	}
	if nondetBool("setup.revoke-a-key") {
		which := nondetRange("setup.revoked", nkeys)
		call(removeKeyByIndex, c45Args(c45ID, blobs[which], uint32(1)))
	}
	revoked := false
	if nondetBool("setup.revoke-id") {
		revoked = call(revokeID, c45Args(c45ID, uint32(1)))
	}
	cache.Commit()
	before := overlay.ChangeHash()
	encId, _ := encodeID(c45ID)
	// what the stored identity says about each key before the operation
	var live [4]bool
	if !revoked {
		for i := 1; i <= nkeys; i++ {
			if pk, err := getPk(srvc, encId, uint32(i)); err == nil {
				live[i] = !pk.revoked && pk.isAuthentication
			}
		}
	}
	cover("c45-setup-done")

	// ---- the operation under test: arbitrary operator index, arbitrary witnessed keys ----
	for i := range ctx.witness {
		ctx.witness[i] = nondetBool("witness")
	}
	idx := uint32(nondetRange("operator.index", 4)) // 0 and 3 are never valid indices here
	var ok bool
	op := nondetRange("op", 9)
	switch op {
	case 0:
		ok = call(addKeyByIndex, c45Args(c45ID, blobs[2], idx))
	case 1:
		ok = call(removeKeyByIndex, c45Args(c45ID, blobs[nondetRange("target", 2)], idx))
	case 2:
		ok = call(setAuthKey, c45Args(c45ID, uint32(1+nondetRange("target", 2)), idx))
	case 3:
		ok = call(removeAuthKey, c45Args(c45ID, uint32(1+nondetRange("target", 2)), idx))
	case 4:
		ok = call(revokeID, c45Args(c45ID, idx))
	case 5:
		ok = call(removeAttributeByIndex, c45Args(c45ID, []byte("attr"), idx))
	case 6, 7:
		// the legacy entry points name the operator by its public key instead of an index
		who := nondetRange("operator.key", 3)
		if op == 6 {
			ok = call(addKey, c45Args(c45ID, blobs[2], blobs[who]))
		} else {
			ok = call(removeKey, c45Args(c45ID, blobs[nondetRange("target", 2)], blobs[who]))
		}
		idx = 0
		if who < nkeys {
			idx = uint32(who + 1)
		}
		if ok {
			cover("c45-legacy-operation-accepted")
			if who == 1 {
				cover("c45-legacy-operation-by-second-key-accepted")
				if !live[2] {
					cover("c45-dbg-second-key-not-live")
				}
			}
		}
	default:
		// registering the identity again (with a witnessed key) must fail in every state reached above,
		// through either registration entry point
		ctx.witness[2] = true
		if nondetBool("with-attributes") {
			ok = call(regIdWithAttributes, c45Args(c45ID, blobs[2], uint32(0)))
		} else {
			ok = call(regIdWithPublicKey, c45Args(c45ID, blobs[2]))
		}
		assert(!ok, "an-existing-or-revoked-identity-cannot-be-registered-again")
	}
	cache.Commit()
	changed := overlay.ChangeHash() != before
	if !ok {
		assert(!changed, "refused-operation-changes-nothing")
		return
	}
	cover("c45-operation-accepted")
	// the accepted operation was authorised by a live authentication key of this identity
	assert(!revoked, "revoked-identity-is-never-modified")
	assert(idx >= 1 && int(idx) <= nkeys, "operator-index-names-an-existing-key")
	if idx >= 1 && int(idx) <= nkeys {
		assert(live[idx], "operator-key-is-live-and-has-authentication-rights")
		assert(ctx.witness[idx-1], "operator-key-was-witnessed")
	}
}

func c45RandHeight(p *overlaydb.MemDB) int { return 1 }

// ---- group controllers ----

var c45IDs = [][]byte{[]byte("did:ont:AAAA"), []byte("did:ont:BBBB"), []byte("did:ont:CCCC")}

// Harness_C45_group: a group controller {members, threshold} (optionally with a nested sub-group) accepts a
// signer list only if every signer entry names a stored, non-revoked key WITH authentication rights that was
// witnessed, and the members that have such a signer reach the threshold.
func Harness_C45_group() {
	ctx := &c45Ctx{}
	overlay := overlaydb.NewOverlayDB(&c45Store{})
	cache := storage.NewCacheDB(overlay)
	srvc := &native.NativeService{CacheDB: cache, ContextRef: ctx, Height: 1 << 30, Time: 100}
	call := func(f func(*native.NativeService) ([]byte, error), args []byte) bool {
		srvc.Input = args
		_, err := f(srvc)
		return err == nil
	}
	// three member identities with an authentication key each (blobs 0..2); the first member also has a key
	// added later, without authentication rights (blob 3)
	var blobs [][]byte
	var keys []keypair.PublicKey
	for i := 0; i < 4; i++ {
		b := nondetBytes("key", 4)
		k, err := keypair.DeserializePublicKey(b)
		assume(err == nil)
		for _, o := range keys {
			assume(!keypair.ComparePublicKey(o, k))
		}
		for _, ob := range blobs {
			assume(!bytes.Equal(ob, b))
		}
		blobs, keys = append(blobs, b), append(keys, k)
		ctx.addrs = append(ctx.addrs, types.AddressFromPubKey(k))
		ctx.witness = append(ctx.witness, true)
	}
	var keyRevoked [3]bool
	_ = keyRevoked
	for i, id := range c45IDs {
		assert(call(regIdWithPublicKey, c45Args(id, blobs[i])), "group-setup-register")
		if i == 0 {
			assert(call(addKeyByIndex, c45Args(id, blobs[3], uint32(1))), "group-setup-second-key")
			if nondetBool("member0.second-key-revoked") {
				assert(call(removeKeyByIndex, c45Args(id, blobs[3], uint32(1))), "group-setup-revoke")
				keyRevoked[0] = true
			}
		}
	}
	cache.Commit()
	// the group: A, B and either C or the sub-group {C} with threshold 1
	g := &Group{Threshold: uint(nondetRange("threshold", 4))}
	g.Members = []interface{}{c45IDs[0], c45IDs[1]}
	if nondetBool("nested") {
		g.Members = append(g.Members, &Group{Members: []interface{}{c45IDs[2]}, Threshold: uint(nondetRange("inner.threshold", 2))})
	} else {
		g.Members = append(g.Members, c45IDs[2])
	}
	for i := range ctx.witness {
		ctx.witness[i] = nondetBool("witness")
	}
	ns := nondetRange("nsigners", param("maxsigners")+1)
	var signers []Signer
	var good [3]bool // member has a signer entry with a live, witnessed authentication key
	allGood := true
	for i := 0; i < ns; i++ {
		who := nondetRange("signer.id", 3)
		idx := uint32(nondetRange("signer.index", 4))
		signers = append(signers, Signer{Id: c45IDs[who], Index: idx})
		ok := idx == 1 && ctx.witness[who] // only key 1 has authentication rights
		good[who] = good[who] || ok
		allGood = allGood && ok
	}
	accepted := verifyGroupSignature(srvc, g, signers)
	cover("c45-group-returned")
	if !accepted {
		return
	}
	cover("c45-group-accepted")
	assert(allGood, "every-signer-entry-is-a-live-witnessed-authentication-key")
	cnt := uint(0)
	for i := 0; i < 2; i++ {
		if good[i] {
			cnt++
		}
	}
	if len(g.Members) == 3 {
		if sub, ok := g.Members[2].(*Group); ok {
			if (good[2] && sub.Threshold <= 1) || sub.Threshold == 0 {
				cnt++
			}
		} else if good[2] {
			cnt++
		}
	}
	assert(cnt >= g.Threshold, "group-threshold-met-by-members-with-valid-signers")
}
