package ledgerstore

import (
	"github.com/ontio/ontology-crypto/keypair"
	s "github.com/ontio/ontology-crypto/signature"
	"github.com/ontio/ontology/common"
	"github.com/ontio/ontology/common/config"
	"github.com/ontio/ontology/core/types"
)

// C39: invalid blocks are rejected without changing the ledger (solo / dbft header rule).
// The real LedgerStoreImp.AddBlock -> verifyHeader -> saveBlock -> submitBlock and the real stores run on
// the LevelDB model of harness/C01/c01kv.go; bookkeeper keys and signatures are ideal (engine/sym/crypto.go).
// A candidate next block is built field by field: every field is either the valid value or an arbitrary
// symbolic one, so all single- and multi-field mutations are covered.

func c39Key(tag string) keypair.PublicKey {
	k, err := keypair.DeserializePublicKey(nondetBytes(tag, 4))
	assume(err == nil)
	return k
}

func c39U256(tag string) common.Uint256 {
	var u common.Uint256
	copy(u[:], nondetBytes(tag, 32))
	return u
}

func Harness_C39_invalid_block_rejected() {
	config.DefConfig.Genesis.ConsensusType = "solo"
	c01DBs = nil
	c01 = &c01Model{left: 100}
	nbk := param("bookkeepers")
	var keys []keypair.PublicKey
	for i := 0; i < nbk; i++ {
		k := c39Key("bookkeeper")
		for _, o := range keys {
			assume(!keypair.ComparePublicKey(o, k))
		}
		keys = append(keys, k)
	}
	outsider := c39Key("outsider")
	for _, o := range keys {
		assume(!keypair.ComparePublicKey(o, outsider))
	}
	next, err := types.AddressFromBookkeepers(append([]keypair.PublicKey{}, keys...))
	assume(err == nil)

	node := c01NewNode(false, 0)
	assert(node.open() == nil, "c39-open")
	h := uint32(param("h"))
	var prev common.Uint256
	var tip *types.Header
	for i := uint32(0); i <= h; i++ {
		b := c01MkBlock(node.ls, i, c39U256("txroot"), prev)
		b.Header.NextBookkeeper = next
		prev = b.Hash()
		tip = b.Header
		assert(node.ls.saveBlock(b, nil, common.Uint256{}) == nil, "c39-history-commits")
	}
	snapBlk := &c01DB{dur: append([]c01Ent{}, node.blk.dur...)}
	snapSt := &c01DB{dur: append([]c01Ent{}, node.st.dur...)}
	snapEv := &c01DB{dur: append([]c01Ent{}, node.ev.dur...)}
	oldRoot := node.ls.stateStore.GetBlockRootWithNewTxRoots(nil)

	// the candidate: valid values, each optionally replaced by an arbitrary one
	txRoot := c39U256("cand.txroot")
	hdr := &types.Header{Height: h + 1, PrevBlockHash: prev, Timestamp: tip.Timestamp + 1, TransactionsRoot: txRoot,
		NextBookkeeper: next}
	hdr.BlockRoot = node.ls.GetBlockRootWithNewTxRoots(h+1, []common.Uint256{txRoot})
	goodRoot := hdr.BlockRoot
	if nondetBool("mutate.height") {
		hdr.Height = nondetU32("cand.height")
	}
	if nondetBool("mutate.prev") {
		hdr.PrevBlockHash = c39U256("cand.prev")
	}
	if nondetBool("mutate.timestamp") {
		hdr.Timestamp = nondetU32("cand.timestamp")
	}
	if nondetBool("mutate.blockroot") {
		hdr.BlockRoot = c39U256("cand.blockroot")
	}
	// bookkeepers: the configured set, or any list over {members, outsider}
	if nondetBool("mutate.bookkeepers") {
		nb := nondetRange("cand.nbook", nbk+2)
		for i := 0; i < nb; i++ {
			c := nondetRange("cand.book", nbk+1)
			if c == nbk {
				hdr.Bookkeepers = append(hdr.Bookkeepers, outsider)
			} else {
				hdr.Bookkeepers = append(hdr.Bookkeepers, keys[c])
			}
		}
	} else {
		hdr.Bookkeepers = append([]keypair.PublicKey{}, keys...)
	}
	ns := nondetRange("cand.nsig", nbk+1)
	for i := 0; i < ns; i++ {
		hdr.SigData = append(hdr.SigData, nondetBytes("cand.sig", 4))
	}
	blk := &types.Block{Header: hdr}
	hash := blk.Hash()
	// ghost: distinct listed bookkeepers with a verifying signature
	var sigs []*s.Signature
	for _, blob := range hdr.SigData {
		if so, e := s.Deserialize(blob); e == nil {
			sigs = append(sigs, so)
		}
	}
	valid := 0
	for j, k := range hdr.Bookkeepers {
		has := false
		for _, so := range sigs {
			has = or(has, s.Verify(k, hash[:], so))
		}
		first := has
		for l := 0; l < j; l++ {
			first = and(first, !keypair.ComparePublicKey(hdr.Bookkeepers[l], k))
		}
		valid += iteInt(first, 1, 0)
	}
	n := len(hdr.Bookkeepers)
	m := n - (n-1)/3
	addr, aerr := types.AddressFromBookkeepers(append([]keypair.PublicKey{}, hdr.Bookkeepers...))
	bad := hdr.Height != h+1 || hdr.PrevBlockHash != prev || hdr.Timestamp <= tip.Timestamp ||
		hdr.BlockRoot != goodRoot || n == 0 || aerr != nil || addr != next || valid < m

	err = node.ls.AddBlock(blk, nil, common.Uint256{})
	cover("c39-addblock-returned")
	ignored := hdr.Height <= h
	if bad {
		assert(err != nil || ignored, "invalid-block-rejected")
	}
	if err != nil || ignored {
		cover("c39-rejected")
		c01SameDB(snapBlk, node.blk, "rejected-block-store-unchanged")
		c01SameDB(node.blk, snapBlk, "rejected-block-store-unchanged")
		c01SameDB(snapSt, node.st, "rejected-state-store-unchanged")
		c01SameDB(node.st, snapSt, "rejected-state-store-unchanged")
		c01SameDB(snapEv, node.ev, "rejected-event-store-unchanged")
		c01SameDB(node.ev, snapEv, "rejected-event-store-unchanged")
		assert(node.ls.GetCurrentBlockHeight() == h && node.ls.GetCurrentBlockHash() == prev, "rejected-current-block-unchanged")
		assert(node.ls.stateStore.GetBlockRootWithNewTxRoots(nil) == oldRoot, "rejected-block-merkle-tree-unchanged")
		// and the valid successor is still accepted afterwards
	} else {
		cover("c39-accepted")
		assert(node.ls.GetCurrentBlockHeight() == h+1, "accepted-block-advances-height")
	}
}
