package types

import (
	"github.com/ontio/ontology/common"
)

// C15: contract-visible results do not depend on Go's map iteration order.
// The engine makes every `range` over a map a solver-visible choice of permutation ("maporder": "symbolic"),
// so running the same operation twice on the same value explores every pair of iteration orders.

func c15Runs() int {
	if engineOnly() {
		return 2
	}
	return 300 // native replay: Go randomises the order per iteration; repeat to see both orders
}

// c15Map builds a map value with n entries keyed 1..n whose values are leaves or references back to the map.
func c15Map(n int, allowSelf bool) (*MapValue, bool) {
	mp := NewMapValue()
	cyclic := false
	for j := 0; j < n; j++ {
		choices := 2
		if allowSelf {
			choices = 3
		}
		var v VmValue
		switch nondetRange("slot", choices) {
		case 0:
			v = VmValueFromInt64(int64(nondetI8("leaf.int")))
		case 1:
			v = VmValueFromBool(nondetBool("leaf.bool"))
		default:
			v = VmValueFromMapValue(mp)
			cyclic = true
		}
		mp.Set(VmValueFromInt64(int64(j+1)), v)
	}
	return mp, cyclic
}

// Harness_C15_detector: the cycle verdict for a map value must not depend on iteration order.
func Harness_C15_detector() {
	n := 1 + nondetRange("n", param("maxentries"))
	mp, cyclic := c15Map(n, true)
	v := VmValueFromMapValue(mp)
	inKF := knownFinding("C15-map-cycle-verdict-order-dependent", cyclic && n >= 2)
	_ = inKF
	first, ferr := v.CircularRefAndDepthDetection()
	for i := 1; i < c15Runs(); i++ {
		again, aerr := v.CircularRefAndDepthDetection()
		assert((ferr == nil) == (aerr == nil), "detector-error-order-independent")
		assert(first == again, "detector-verdict-order-independent")
	}
}

// Harness_C15_serialize: serializing an acyclic map gives the same bytes for every iteration order,
// and key / value listings are order independent.
func Harness_C15_serialize() {
	n := 1 + nondetRange("n", param("maxentries"))
	mp, _ := c15Map(n, false)
	v := VmValueFromMapValue(mp)
	s1 := common.NewZeroCopySink(nil)
	e1 := v.Serialize(s1)
	for i := 1; i < c15Runs(); i++ {
		s2 := common.NewZeroCopySink(nil)
		e2 := v.Serialize(s2)
		assert((e1 == nil) == (e2 == nil), "serialize-outcome-order-independent")
		assert(len(s1.Bytes()) == len(s2.Bytes()), "serialize-length-order-independent")
		if len(s1.Bytes()) == len(s2.Bytes()) {
			assert(bytesEq(s1.Bytes(), s2.Bytes()), "serialize-bytes-order-independent")
		}
	}
	k1 := mp.GetMapSortedKey()
	k2 := mp.GetMapSortedKey()
	assert(len(k1) == len(k2), "keys-length")
	for i := range k1 {
		assert(k1[i].integer == k2[i].integer, "sorted-keys-order-independent")
	}
	v1, _ := mp.GetValues()
	v2, _ := mp.GetValues()
	for i := range v1 {
		assert(v1[i].valType == v2[i].valType, "values-order-independent-type")
		assert(v1[i].integer == v2[i].integer, "values-order-independent")
	}
}

// Harness_C15_values: KEYS / VALUES listings of a map with `entries` integer entries come out in key order
// for every iteration order of the underlying Go map.
func Harness_C15_values() {
	n := param("entries")
	mp := NewMapValue()
	want := make([]int64, n)
	for j := 0; j < n; j++ {
		want[j] = int64(nondetI8("val"))
		mp.Set(VmValueFromInt64(int64(j+1)), VmValueFromInt64(want[j]))
	}
	for r := 0; r < c15Runs(); r++ {
		ks := mp.GetMapSortedKey()
		vs, err := mp.GetValues()
		assert(err == nil && len(ks) == n && len(vs) == n, "listing-complete")
		if err != nil || len(ks) != n || len(vs) != n {
			return
		}
		for i := 0; i < n; i++ {
			assert(ks[i].integer == int64(i+1), "keys-in-key-order")
			assert(vs[i].integer == want[i], "values-in-key-order")
		}
	}
}

// Harness_C15_large: the same listing claim for a map just above the VM's array-size constant (no cap applies
// to maps): every entry is listed and serialized (iteration order left to the engine's insertion order here).
func Harness_C15_large() {
	n := param("entries")
	mp := NewMapValue()
	pv := int64(nondetI8("val"))
	for j := 0; j < n; j++ {
		mp.Set(VmValueFromInt64(int64(j+1)), VmValueFromInt64(pv))
	}
	ks := mp.GetMapSortedKey()
	vs, err := mp.GetValues()
	assert(err == nil && len(ks) == n && len(vs) == n, "large-listing-complete")
}
