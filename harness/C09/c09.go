package utils

import (
	"github.com/ontio/ontology/common/config"
	"github.com/ontio/ontology/common/constants"
)

// C09: ONG issuance is interval-additive and totals exactly the ONG supply.

func c09SetNetwork() uint32 {
	switch nondetRange("network", 3) {
	case 0:
		config.DefConfig.P2PNode.NetworkId = config.NETWORK_ID_MAIN_NET
	case 1:
		config.DefConfig.P2PNode.NetworkId = config.NETWORK_ID_POLARIS_NET
	default:
		config.DefConfig.P2PNode.NetworkId = config.NETWORK_ID_SOLO_NET
	}
	return config.DefConfig.P2PNode.NetworkId
}

// Harness_C09_gov_prefix: governance issuance in prefix form f(0,s)+f(s,e) = f(0,e) for all 32-bit s<=e.
// In Z/2^64 this is equivalent to three-point additivity f(s,m)+f(m,e)=f(s,e).
func Harness_C09_gov_prefix() {
	c09SetNetwork()
	s, e := nondetU32("s"), nondetU32("e")
	assume(s <= e)
	deadline, _ := config.GetGovUnboundDeadline()
	inKF := knownFinding("C09-split-at-gov-deadline", and(s == deadline, e > deadline))
	_ = inKF
	whole := CalcGovernanceUnbindOng(0, e)
	parts := CalcGovernanceUnbindOng(0, s) + CalcGovernanceUnbindOng(s, e)
	assert(whole == parts, "gov-additive-prefix")
}

// Harness_C09_holder_prefix: holder issuance in prefix form for a symbolic balance.
func Harness_C09_holder_prefix() {
	c09SetNetwork()
	s, e := nondetU32("s"), nondetU32("e")
	assume(s <= e)
	// per-unit amounts are additive ...
	whole := CalcUnbindOng(1, 0, e)
	parts := CalcUnbindOng(1, 0, s) + CalcUnbindOng(1, s, e)
	assert(whole == parts, "holder-unit-additive-prefix")
	// ... and the amount for any balance is the per-unit amount times the balance (mod 2^64), so
	// additivity for every balance follows by distributivity of multiplication in Z/2^64.
	bal := nondetU64("balance")
	assert(CalcUnbindOng(bal, s, e) == CalcUnbindOng(1, s, e)*bal, "holder-linear-in-balance")
}

// Harness_C09_total: holders (whole ONT supply) plus governance over the whole schedule = ONG total supply.
func Harness_C09_total() {
	c09SetNetwork()
	h := CalcUnbindOng(constants.ONT_TOTAL_SUPPLY, 0, 0xFFFFFFFF)
	g := CalcGovernanceUnbindOng(0, 0xFFFFFFFF)
	assert(h+g == constants.ONG_TOTAL_SUPPLY, "total-equals-supply")
	// and nothing is issued after the last deadline
	e := nondetU32("e")
	d, _ := config.GetGovUnboundDeadline()
	assume(e >= d)
	inKF := knownFinding("C09-split-at-gov-deadline", e == d)
	_ = inKF
	assert(CalcGovernanceUnbindOng(0, e) == g, "gov-saturates-at-deadline")
	assert(CalcUnbindOng(constants.ONT_TOTAL_SUPPLY, 0, e) == h, "holder-saturates")
}

// Harness_C09_nopanic: no index-out-of-range or other panic for any offsets / balance.
func Harness_C09_nopanic() {
	c09SetNetwork()
	s, e := nondetU32("s"), nondetU32("e")
	_ = CalcUnbindOng(nondetU64("balance"), s, e)
	_ = CalcGovernanceUnbindOng(s, e)
	cover("reached-end")
	assert(true, "no-panic")
}

// Harness_C09_gov_threepoint: the literal three-point form (thorough tier).
func Harness_C09_gov_threepoint() {
	c09SetNetwork()
	s, m, e := nondetU32("s"), nondetU32("m"), nondetU32("e")
	assume(s <= m)
	assume(m <= e)
	deadline, _ := config.GetGovUnboundDeadline()
	inKF := knownFinding("C09-split-at-gov-deadline", and(m == deadline, and(e > deadline, s < deadline)))
	_ = inKF
	whole := CalcGovernanceUnbindOng(s, e)
	parts := CalcGovernanceUnbindOng(s, m) + CalcGovernanceUnbindOng(m, e)
	assert(whole == parts, "gov-additive-3pt")
}

// Harness_C09_holder_threepoint: three-point form for holders.
func Harness_C09_holder_threepoint() {
	c09SetNetwork()
	s, m, e := nondetU32("s"), nondetU32("m"), nondetU32("e")
	assume(s <= m)
	assume(m <= e)
	whole := CalcUnbindOng(1, s, e)
	parts := CalcUnbindOng(1, s, m) + CalcUnbindOng(1, m, e)
	assert(whole == parts, "holder-unit-additive-3pt")
}
