package ledgerstore

// Native demonstration (real keys and signatures) of the known finding C32-fewer-signatures-than-c-plus-one:
// with 7 consensus peers and C = 2 a synced header that lists 3 members but carries ONE valid signature is
// accepted by LedgerStoreImp.verifyHeader (it verifies only m = n - 6n/7 = 1 signature).

import (
	"encoding/json"
	"fmt"
	"testing"

	"github.com/ontio/ontology-crypto/keypair"
	"github.com/ontio/ontology/account"
	"github.com/ontio/ontology/common"
	"github.com/ontio/ontology/common/config"
	vconfig "github.com/ontio/ontology/consensus/vbft/config"
	"github.com/ontio/ontology/core/signature"
	"github.com/ontio/ontology/core/types"
)

func TestC32FewerSignaturesThanCPlusOne(t *testing.T) {
	config.DefConfig.Genesis.ConsensusType = "vbft"
	var accts []*account.Account
	info := map[string]uint32{}
	for i := 0; i < 7; i++ {
		a := account.NewAccount("")
		accts = append(accts, a)
		info[vconfig.PubkeyID(a.PublicKey)] = uint32(i + 1)
	}
	cfgPayload, _ := json.Marshal(&vconfig.VbftBlockInfo{NewChainConfig: &vconfig.ChainConfig{C: 2, N: 7}})
	plain, _ := json.Marshal(&vconfig.VbftBlockInfo{LastConfigBlockNum: 0})
	cfgHdr := &types.Header{Height: 0, ConsensusPayload: cfgPayload}
	prev := &types.Header{Height: 4, Timestamp: 100, ConsensusPayload: plain}
	ls := &LedgerStoreImp{
		headerCache:      map[common.Uint256]*types.Header{cfgHdr.Hash(): cfgHdr, prev.Hash(): prev},
		headerIndexCache: NewHeaderIndexCache(),
		vbftPeerInfoMap:  map[uint32]map[string]uint32{0: info},
	}
	ls.headerIndexCache.setHeaderIndex(0, 0, cfgHdr.Hash())
	hdr := &types.Header{Height: 5, Timestamp: 101, PrevBlockHash: prev.Hash(), ConsensusPayload: plain,
		Bookkeepers: []keypair.PublicKey{accts[0].PublicKey, accts[1].PublicKey, accts[2].PublicKey}}
	hash := hdr.Hash()
	sig, err := signature.Sign(accts[0], hash[:])
	if err != nil {
		t.Fatal(err)
	}
	hdr.SigData = [][]byte{sig}
	if err := ls.verifyHeader(hdr); err == nil {
		fmt.Println("VERIF-REPLAY: ASSERT-FAILED accepted-header-has-c-plus-one-distinct-valid-signers (1 valid signature, C+1 = 3)")
	} else {
		fmt.Println("VERIF-REPLAY: OK rejected:", err)
	}
}

// Native demonstration of the defect repaired by the "fix: reject duplicate bookkeepers in verifyHeader"
// commit: with 8 consensus peers the code verifies m = 8 - 48/7 = 2 signatures, and a header listing
// [A, A, B] with A's single signature supplied twice used to be accepted (one valid signer, 2 intended).
func TestC32DuplicateBookkeeperCountsTwice(t *testing.T) {
	config.DefConfig.Genesis.ConsensusType = "vbft"
	var accts []*account.Account
	info := map[string]uint32{}
	for i := 0; i < 8; i++ {
		a := account.NewAccount("")
		accts = append(accts, a)
		info[vconfig.PubkeyID(a.PublicKey)] = uint32(i + 1)
	}
	cfgPayload, _ := json.Marshal(&vconfig.VbftBlockInfo{NewChainConfig: &vconfig.ChainConfig{C: 1, N: 8}})
	plain, _ := json.Marshal(&vconfig.VbftBlockInfo{LastConfigBlockNum: 0})
	cfgHdr := &types.Header{Height: 0, ConsensusPayload: cfgPayload}
	prev := &types.Header{Height: 4, Timestamp: 100, ConsensusPayload: plain}
	ls := &LedgerStoreImp{
		headerCache:      map[common.Uint256]*types.Header{cfgHdr.Hash(): cfgHdr, prev.Hash(): prev},
		headerIndexCache: NewHeaderIndexCache(),
		vbftPeerInfoMap:  map[uint32]map[string]uint32{0: info},
	}
	ls.headerIndexCache.setHeaderIndex(0, 0, cfgHdr.Hash())
	hdr := &types.Header{Height: 5, Timestamp: 101, PrevBlockHash: prev.Hash(), ConsensusPayload: plain,
		Bookkeepers: []keypair.PublicKey{accts[0].PublicKey, accts[0].PublicKey, accts[1].PublicKey}}
	hash := hdr.Hash()
	sig, err := signature.Sign(accts[0], hash[:])
	if err != nil {
		t.Fatal(err)
	}
	hdr.SigData = [][]byte{sig, sig}
	if err := ls.verifyHeader(hdr); err == nil {
		fmt.Println("VERIF-REPLAY: ASSERT-FAILED accepted-header-has-c-plus-one-distinct-valid-signers (one signer counted for both of the m = 2 verified signatures)")
	} else {
		fmt.Println("VERIF-REPLAY: OK rejected:", err)
	}
}
