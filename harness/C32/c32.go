package ledgerstore

import (
	"github.com/ontio/ontology-crypto/keypair"
	"github.com/ontio/ontology/common"
	"github.com/ontio/ontology/common/config"
	vconfig "github.com/ontio/ontology/consensus/vbft/config"
	s "github.com/ontio/ontology-crypto/signature"
	"github.com/ontio/ontology/core/types"
)

// C32: a syncing node accepts a VBFT header only with valid signatures of at least C+1 distinct members
// of the governing chain configuration. Keys/signatures are ideal (engine/sym/crypto.go).

var c32Prev, c32Cfg *types.Header
var c32C uint32

// stubs (see spec.json): header lookups and the JSON consensus payload
func c32GetHeaderByHash(this *LedgerStoreImp, h common.Uint256) (*types.Header, error) {
	return c32Prev, nil
}
func c32GetHeaderByHeight(this *LedgerStoreImp, height uint32) (*types.Header, error) {
	return c32Cfg, nil
}
func c32VbftBlock(header *types.Header) (*vconfig.VbftBlockInfo, error) {
	if header == c32Cfg {
		return &vconfig.VbftBlockInfo{NewChainConfig: &vconfig.ChainConfig{C: c32C}}, nil
	}
	return &vconfig.VbftBlockInfo{LastConfigBlockNum: 0}, nil
}

func c32Key(tag string) keypair.PublicKey {
	k, err := keypair.DeserializePublicKey(nondetBytes(tag, 4))
	assume(err == nil)
	return k
}

func Harness_C32_header_needs_c_plus_one_signers() {
	config.DefConfig.Genesis.ConsensusType = "vbft"
	n := param("npeers")
	c := uint32(nondetRange("c", (n-1)/3+1)) // any fault bound with n >= 3c+1
	if param("fixc") >= 0 {
		assume(c == uint32(param("fixc")))
	}
	c32C = c
	peers := make([]keypair.PublicKey, 0, n)
	info := map[string]uint32{}
	for i := 0; i < n; i++ {
		k := c32Key("peer")
		for _, o := range peers {
			assume(!keypair.ComparePublicKey(o, k))
		}
		peers = append(peers, k)
		info[vconfig.PubkeyID(k)] = uint32(i + 1)
	}
	outsider := c32Key("outsider")
	for _, o := range peers {
		assume(!keypair.ComparePublicKey(o, outsider))
	}
	ls := &LedgerStoreImp{vbftPeerInfoMap: map[uint32]map[string]uint32{0: info}}
	c32Cfg = &types.Header{Height: 0}
	c32Prev = &types.Header{Height: 4, Timestamp: 100}
	hdr := &types.Header{Height: 5, Timestamp: 101, PrevBlockHash: c32Prev.Hash()}
	nb := nondetRange("nbook", param("maxbook")+1)
	for i := 0; i < nb; i++ {
		// listed keys are drawn from the first `bookpool` members (all members when 0) or the outsider
		pool := param("bookpool")
		if pool == 0 || pool > n {
			pool = n
		}
		ch := nondetRange("book", pool+1)
		if ch == pool {
			hdr.Bookkeepers = append(hdr.Bookkeepers, outsider)
		} else {
			hdr.Bookkeepers = append(hdr.Bookkeepers, peers[ch])
		}
	}
	ns := nondetRange("nsig", param("maxsig")+1)
	for i := 0; i < ns; i++ {
		hdr.SigData = append(hdr.SigData, nondetBytes("sig", 4))
	}
	err := ls.verifyHeader(hdr)
	cover("verifyheader-returned")
	if err != nil {
		return
	}
	cover("accepted")
	hash := hdr.Hash()
	// ghost count as one symbolic integer (no forking): distinct members with a verifying signature
	var sigs []*s.Signature
	for _, blob := range hdr.SigData {
		if so, e := s.Deserialize(blob); e == nil {
			sigs = append(sigs, so)
		}
	}
	count := uint32(0)
	for _, k := range peers {
		has := false
		for _, so := range sigs {
			has = or(has, s.Verify(k, hash[:], so))
		}
		count += uint32(iteInt(has, 1, 0))
	}
	// the listed finding: the code verifies m = n - 6n/7 signatures (not C+1); headers that carry at least
	// those m valid distinct member signatures but fewer than C+1 are the known region, anything below m is new
	mcode := uint32(n - (n*6)/7)
	inKF := knownFinding("C32-fewer-signatures-than-c-plus-one", count >= mcode && count < c+1)
	_ = inKF
	assert(count >= c+1, "accepted-header-has-c-plus-one-distinct-valid-signers")
}

// Harness_C32_wide: the same claim with 8+ peers, where the code's own signature count m = n - 6n/7 is 2,
// so a header with fewer valid signatures than even the code intends is distinguishable from the listed finding.
func Harness_C32_wide() { Harness_C32_header_needs_c_plus_one_signers() }
