package types

import (
	"github.com/ontio/ontology-crypto/keypair"
	"github.com/ontio/ontology/common"
)

// C20: block encoding round-trips and binds the transaction list; the block hash covers every unsigned
// header field and nothing else.

const c20Fixed = 4 + 32*3 + 4 + 4 + 8 // version, prev, txroot, blockroot, timestamp, height, consensus data

// c20HeaderBytes: a header encoding with every fixed field symbolic, a consensus payload of cp symbolic
// bytes, a symbolic next-bookkeeper, no bookkeeper keys (see spec: keys are abstracted elsewhere) and
// nsig signatures of 0..2 symbolic bytes.
func c20HeaderBytes(tag string) []byte {
	b := nondetBytes(tag+".fixed", c20Fixed)
	cp := nondetRange(tag+".cplen", param("maxcp")+1)
	b = append(b, byte(cp))
	b = append(b, nondetBytes(tag+".cp", cp)...)
	b = append(b, nondetBytes(tag+".next", 20)...)
	b = append(b, 0) // number of bookkeeper keys
	ns := nondetRange(tag+".nsig", param("maxsig")+1)
	b = append(b, byte(ns))
	for i := 0; i < ns; i++ {
		sl := nondetRange(tag+".siglen", 2)
		b = append(b, byte(sl))
		b = append(b, nondetBytes(tag+".sig", sl)...)
	}
	return b
}

// Harness_C20_header_bytes: arbitrary header bytes (symbolic length fields too): no panic; accepted =>
// re-encoding reproduces the consumed bytes.
func Harness_C20_header_bytes() {
	tail := nondetRange("tail", param("maxtail")+1)
	buf := nondetBytes("buf", c20Fixed+tail)
	src := common.NewZeroCopySource(buf)
	h := new(Header)
	err := h.Deserialization(src)
	cover("returned")
	if err != nil {
		return
	}
	if len(h.Bookkeepers) != 0 {
		// key blobs go through the real elliptic-curve decoder: outside this harness
		return
	}
	cover("accepted")
	out := h.ToArray()
	assert(uint64(len(out)) == src.Pos(), "header-reencode-length")
	assert(bytesEq(out, buf[:src.Pos()]), "header-reencodes-to-consumed-bytes")
}

// Harness_C20_header_hash: the hash covers every unsigned field and no signature data.
func Harness_C20_header_hash() {
	b1 := c20HeaderBytes("a")
	b2 := c20HeaderBytes("b")
	h1, e1 := HeaderFromRawBytes(b1)
	h2, e2 := HeaderFromRawBytes(b2)
	assert(e1 == nil, "first-decodes")
	assert(e2 == nil, "second-decodes")
	if e1 != nil || e2 != nil {
		return
	}
	sameUnsigned := h1.Version == h2.Version && h1.PrevBlockHash == h2.PrevBlockHash &&
		h1.TransactionsRoot == h2.TransactionsRoot && h1.BlockRoot == h2.BlockRoot &&
		h1.Timestamp == h2.Timestamp && h1.Height == h2.Height && h1.ConsensusData == h2.ConsensusData &&
		len(h1.ConsensusPayload) == len(h2.ConsensusPayload) && bytesEq(h1.ConsensusPayload, h2.ConsensusPayload) &&
		h1.NextBookkeeper == h2.NextBookkeeper
	assert(sameUnsigned == (h1.Hash() == h2.Hash()), "hash-equal-iff-unsigned-fields-equal")
}

// c20TxBytes: a minimal invoke transaction (symbolic nonce + one symbolic code byte, no signatures).
func c20TxBytes(tag string) []byte {
	b := []byte{0, byte(InvokeNeo)}
	b = append(b, nondetBytes(tag+".nonce", 4)...)
	b = append(b, make([]byte, 8+8+20)...)
	b = append(b, 1, nondetU8(tag+".code"), 0, 0)
	return b
}

// Harness_C20_block: a block is accepted only if its transaction list has no duplicate and hashes to the
// header's transaction root; an accepted block re-encodes to the same bytes.
func Harness_C20_block() {
	hb := c20HeaderBytes("h")
	n := nondetRange("ntx", param("maxtx")+1)
	buf := append([]byte{}, hb...)
	buf = append(buf, byte(n), 0, 0, 0)
	var txs [][]byte
	for i := 0; i < n; i++ {
		t := c20TxBytes("tx")
		txs = append(txs, t)
		buf = append(buf, t...)
	}
	blk, err := BlockFromRawBytes(buf)
	cover("returned")
	if err != nil {
		return
	}
	cover("accepted")
	assert(len(blk.Transactions) == n, "all-transactions-decoded")
	// distinct transactions
	for i := 0; i < n; i++ {
		for j := i + 1; j < n; j++ {
			assert(blk.Transactions[i].Hash() != blk.Transactions[j].Hash(), "no-duplicate-transaction-hash")
			assert(!bytesEq(txs[i], txs[j]), "no-duplicate-transaction-bytes")
		}
	}
	// the root binds the list
	hashes := make([]common.Uint256, 0, n)
	for _, tx := range blk.Transactions {
		hashes = append(hashes, tx.Hash())
	}
	assert(blk.Header.TransactionsRoot == common.ComputeMerkleRoot(hashes), "root-matches-transaction-list")
	out := blk.ToArray()
	assert(len(out) == len(buf), "block-reencode-length")
	assert(bytesEq(out, buf), "block-reencodes-to-same-bytes")
}

// Harness_C20_block_root_binds: two accepted blocks with the same header (hence the same root) carry the
// same transactions in the same order (ideal hash): reorder / drop / duplicate / modify is rejected.
func Harness_C20_block_root_binds() {
	hb := c20HeaderBytes("h")
	n1 := nondetRange("ntx1", param("maxtx")+1)
	n2 := nondetRange("ntx2", param("maxtx")+1)
	mk := func(tag string, n int) ([]byte, [][]byte) {
		buf := append([]byte{}, hb...)
		buf = append(buf, byte(n), 0, 0, 0)
		var txs [][]byte
		for i := 0; i < n; i++ {
			t := c20TxBytes(tag)
			txs = append(txs, t)
			buf = append(buf, t...)
		}
		return buf, txs
	}
	b1, t1 := mk("x", n1)
	b2, t2 := mk("y", n2)
	_, e1 := BlockFromRawBytes(b1)
	_, e2 := BlockFromRawBytes(b2)
	if e1 != nil || e2 != nil {
		return
	}
	cover("both-accepted")
	assert(n1 == n2, "same-root-same-count")
	if n1 == n2 {
		for i := 0; i < n1; i++ {
			assert(bytesEq(t1[i], t2[i]), "same-root-same-transactions-in-order")
		}
	}
}

// Harness_C20_header_keys: headers that carry bookkeeper keys (ideal keys, 4-byte blobs): an accepted header
// re-encodes to the same bytes.
func Harness_C20_header_keys() {
	b := nondetBytes("fixed", c20Fixed)
	b = append(b, 0) // empty consensus payload
	b = append(b, nondetBytes("next", 20)...)
	nk := 1 + nondetRange("nkeys", 2)
	b = append(b, byte(nk))
	canonical := true
	for i := 0; i < nk; i++ {
		blob := nondetBytes("keyblob", 4)
		b = append(b, 4)
		b = append(b, blob...)
		if k, err := keypair.DeserializePublicKey(blob); err == nil {
			canonical = and(canonical, bytesEq(keypair.SerializePublicKey(k), blob))
		}
	}
	b = append(b, 0) // no signatures
	inKF := knownFinding("C20-noncanonical-bookkeeper-key-reencoded", !canonical)
	_ = inKF
	h, err := HeaderFromRawBytes(b)
	if err != nil {
		return
	}
	cover("accepted")
	out := h.ToArray()
	assert(len(out) == len(b), "header-with-keys-reencode-length")
	if len(out) == len(b) {
		assert(bytesEq(out, b), "header-with-keys-reencodes-to-same-bytes")
	}
	// the hash does not cover the key list
	h2 := *h
	h2.Bookkeepers = nil
	h2.hash = nil
	assert(h.Hash() == h2.Hash(), "hash-does-not-cover-bookkeepers")
}
