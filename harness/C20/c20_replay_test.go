package types

// Native demonstration (real key) of the known finding C20-noncanonical-bookkeeper-key-reencoded: a header
// whose bookkeeper key is given in the uncompressed SEC encoding decodes fine but re-encodes to different
// bytes (the key is written back compressed).

import (
	"bytes"
	"crypto/elliptic"
	"fmt"
	"testing"

	"github.com/ontio/ontology-crypto/ec"
	"github.com/ontio/ontology-crypto/keypair"
	"github.com/ontio/ontology/common"
)

func TestC20UncompressedBookkeeperKey(t *testing.T) {
	_, pub, err := keypair.GenerateKeyPair(keypair.PK_ECDSA, keypair.P256)
	if err != nil {
		t.Fatal(err)
	}
	pk := pub.(*ec.PublicKey)
	kb := elliptic.Marshal(pk.Curve, pk.X, pk.Y)
	if _, err := keypair.DeserializePublicKey(kb); err != nil {
		t.Skip("uncompressed encoding not accepted:", err)
	}
	h := &Header{Height: 1}
	sink := common.NewZeroCopySink(nil)
	h.serializationUnsigned(sink)
	sink.WriteVarUint(1)
	sink.WriteVarBytes(kb)
	sink.WriteVarUint(0)
	raw := sink.Bytes()
	dec, err := HeaderFromRawBytes(raw)
	if err != nil {
		fmt.Println("VERIF-REPLAY: OK rejected:", err)
		return
	}
	if !bytes.Equal(dec.ToArray(), raw) {
		fmt.Printf("VERIF-REPLAY: ASSERT-FAILED header-with-keys-reencodes-to-same-bytes (%d bytes in, %d bytes out)\n", len(raw), len(dec.ToArray()))
	} else {
		fmt.Println("VERIF-REPLAY: OK same bytes")
	}
}
