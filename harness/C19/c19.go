package types

import (
	"crypto/sha256"

	"github.com/ontio/ontology/common"
	"github.com/ontio/ontology/core/payload"
)

// C19: transaction encoding is canonical and its hash binds the signed (unsigned-part) content.

const c19Header = 42 // version, type, nonce, gas price, gas limit, payer

func c19Reencode(tx *Transaction) []byte {
	sink := common.NewZeroCopySink(nil)
	sink.WriteByte(tx.Version)
	sink.WriteByte(byte(tx.TxType))
	sink.WriteUint32(tx.Nonce)
	sink.WriteUint64(tx.GasPrice)
	sink.WriteUint64(tx.GasLimit)
	sink.WriteBytes(tx.Payer[:])
	switch pl := tx.Payload.(type) {
	case *payload.DeployCode:
		pl.Serialization(sink)
	case *payload.InvokeCode:
		pl.Serialization(sink)
	}
	sink.WriteVarUint(uint64(tx.attributes))
	return sink.Bytes()
}

// Harness_C19_bytes: any byte string accepted as an Ontology-format transaction re-encodes, field by
// field, to exactly the consumed bytes; its hash is sha256(sha256(unsigned part)); decoding never panics.
func Harness_C19_bytes() {
	tail := nondetRange("tail", param("maxtail")+1)
	buf := nondetBytes("buf", c19Header+tail)
	assume(buf[1] != byte(EIP155)) // the EIP-155 branch (RLP, secp256k1 recovery) is outside the claim
	src := common.NewZeroCopySource(buf)
	tx := new(Transaction)
	err := tx.Deserialization(src)
	cover("deserialization-returned")
	if err != nil {
		return
	}
	cover("accepted")
	consumed := src.Pos()
	assert(consumed <= uint64(len(buf)), "consumed-in-bounds")
	assert(uint64(len(tx.Raw)) == consumed, "raw-is-consumed-length")
	assert(bytesEq(tx.Raw, buf[:consumed]), "raw-is-consumed-bytes")
	out := tx.ToArray()
	assert(uint64(len(out)) == consumed, "toarray-length")
	assert(bytesEq(out, buf[:consumed]), "toarray-reproduces-consumed-bytes")

	// canonical: encoding the decoded fields gives the same bytes (one encoding per content)
	unsigned := c19Reencode(tx)
	assert(uint64(len(unsigned)) <= consumed, "unsigned-part-inside")
	assert(bytesEq(unsigned, buf[:len(unsigned)]), "fields-reencode-to-unsigned-part")
	sigSink := common.NewZeroCopySink(nil)
	sigSink.WriteVarUint(uint64(len(tx.Sigs)))
	for i := range tx.Sigs {
		tx.Sigs[i].Serialization(sigSink)
	}
	assert(uint64(len(unsigned)+len(sigSink.Bytes())) == consumed, "sig-section-length")
	assert(bytesEq(sigSink.Bytes(), buf[len(unsigned):consumed]), "sigs-reencode-to-signature-section")

	// the hash is a function of the unsigned part only
	h1 := sha256.Sum256(buf[:len(unsigned)])
	h2 := sha256.Sum256(h1[:])
	assert(tx.Hash() == common.Uint256(h2), "hash-is-double-sha-of-unsigned-part")
	assert(tx.Version == 0, "version-zero")
	assert(tx.attributes == 0, "no-attributes")
}

// Harness_C19_sigs_do_not_change_hash: two encodings that agree on the unsigned part have the same hash
// whatever their signature sections contain.
func Harness_C19_sigs_do_not_change_hash() {
	n := nondetRange("codelen", 3)
	head := nondetBytes("head", c19Header)
	head[0] = 0
	head[1] = byte(InvokeNeo)
	code := nondetBytes("code", n)
	mk := func(tag string) []byte {
		b := append([]byte{}, head...)
		b = append(b, byte(n))
		b = append(b, code...)
		b = append(b, 0) // attributes
		k := nondetRange(tag+".nsig", 2)
		b = append(b, byte(k))
		for i := 0; i < k; i++ {
			il := nondetRange(tag+".invlen", 3)
			b = append(b, byte(il))
			b = append(b, nondetBytes(tag+".inv", il)...)
			vl := nondetRange(tag+".verlen", 3)
			b = append(b, byte(vl))
			b = append(b, nondetBytes(tag+".ver", vl)...)
		}
		return b
	}
	b1, b2 := mk("a"), mk("b")
	t1, e1 := TransactionFromRawBytes(b1)
	t2, e2 := TransactionFromRawBytes(b2)
	assert(e1 == nil, "first-accepted")
	assert(e2 == nil, "second-accepted")
	if e1 == nil && e2 == nil {
		assert(t1.Hash() == t2.Hash(), "signatures-do-not-change-hash")
		assert(len(t1.Sigs) == int(b1[c19Header+n+2]), "sig-count")
	}
}

// Harness_C19_unsigned_changes_hash: changing any unsigned byte changes the hash (ideal hash).
func Harness_C19_unsigned_changes_hash() {
	n := 1
	head1 := nondetBytes("head1", c19Header)
	head2 := nondetBytes("head2", c19Header)
	head1[0], head2[0] = 0, 0
	head1[1], head2[1] = byte(InvokeNeo), byte(InvokeNeo)
	c1, c2 := nondetU8("code1"), nondetU8("code2")
	mk := func(h []byte, c byte) []byte {
		b := append([]byte{}, h...)
		b = append(b, byte(n), c, 0, 0)
		return b
	}
	b1, b2 := mk(head1, c1), mk(head2, c2)
	t1, e1 := TransactionFromRawBytes(b1)
	t2, e2 := TransactionFromRawBytes(b2)
	assert(e1 == nil, "first-accepted")
	assert(e2 == nil, "second-accepted")
	if e1 == nil && e2 == nil {
		same := and(bytesEq(head1, head2), c1 == c2)
		assert(same == (t1.Hash() == t2.Hash()), "hash-equal-iff-unsigned-content-equal")
	}
}

// Harness_C19_size_limit: an encoding longer than MAX_TX_SIZE is rejected on both entry points. The bulk
// of the bytes is a concrete signature blob; the header fields that matter stay symbolic.
func Harness_C19_size_limit() {
	head := nondetBytes("head", c19Header)
	head[0] = 0
	head[1] = byte(InvokeNeo)
	buf := append([]byte{}, head...)
	buf = append(buf, 1, nondetU8("code"), 0) // code, attributes
	buf = append(buf, 1)                     // one signature set
	// invocation script: 0xFE + 4-byte length, making the whole encoding exceed the limit by `over` bytes
	over := 1 + nondetRange("over", 2)
	rest := MAX_TX_SIZE + over - len(buf) - 5 - 1
	buf = append(buf, 0xFE, byte(rest), byte(rest>>8), byte(rest>>16), byte(rest>>24))
	buf = append(buf, make([]byte, rest)...)
	buf = append(buf, 0) // empty verification script
	assert(len(buf) == MAX_TX_SIZE+over, "harness-built-oversized-encoding")
	tx := new(Transaction)
	err := tx.Deserialization(common.NewZeroCopySource(buf))
	assert(err != nil, "oversized-encoding-rejected-by-deserialization")
	_, err2 := TransactionFromRawBytes(buf)
	assert(err2 != nil, "oversized-encoding-rejected-by-fromrawbytes")
	// exactly at the limit is still accepted
	at := buf[:0:0]
	at = append(at, buf[:c19Header+4]...)
	rest2 := MAX_TX_SIZE - len(at) - 5 - 1
	at = append(at, 0xFE, byte(rest2), byte(rest2>>8), byte(rest2>>16), byte(rest2>>24))
	at = append(at, make([]byte, rest2)...)
	at = append(at, 0)
	tx2 := new(Transaction)
	assert(tx2.Deserialization(common.NewZeroCopySource(at)) == nil, "encoding-at-the-limit-accepted")
}
