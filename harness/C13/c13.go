package types

import (
	"math"
	"math/big"
)

// C13: NeoVM integer opcodes compute exact integer results within bounds, independent of representation.

// c13Operand returns a symbolic IntValue in normal form together with its exact value.
// kind 0: machine-size (any int64); kind 1: big (|v| < 2^256, not an int64).
func c13Operand(name string) (IntValue, *big.Int) { return c13OperandBits(name, 256) }

func c13OperandBits(name string, bits int) (IntValue, *big.Int) {
	if nondetBool(name + ".isbig") {
		b := nondetBig(name+".big", bits)
		assume(!b.IsInt64())
		return IntValue{isbig: true, bigint: b}, new(big.Int).Set(b)
	}
	i := nondetI64(name + ".int")
	return IntValFromInt(i), bigFromI64(i)
}

func c13Value(v IntValue) *big.Int {
	if v.isbig {
		return v.bigint
	}
	return bigFromI64(v.integer)
}

var c13Limit = new(big.Int).Lsh(big.NewInt(1), 256)

func c13Fits(x *big.Int) bool {
	// len(x.Bytes()) <= 32  <=>  |x| < 2^256
	a := new(big.Int).Abs(x)
	return bigLt(a, c13Limit)
}

func c13CheckResult(r IntValue, err error, exact *big.Int, label string) {
	if c13Fits(exact) {
		assert(err == nil, label+"-no-error-when-fits")
		if err == nil {
			assert(bigEq(c13Value(r), exact), label+"-exact")
			assert(r.isbig == !exact.IsInt64(), label+"-normalised")
		}
	} else {
		assert(err != nil, label+"-error-when-too-big")
	}
}

// Harness_C13_addsub: ADD, SUB, MAX, MIN, compare on every pair of operands in both representations.
func Harness_C13_addsub() {
	a, A := c13Operand("a")
	b, B := c13Operand("b")
	switch nondetRange("op", 5) {
	case 0:
		r, err := a.Add(b)
		c13CheckResult(r, err, new(big.Int).Add(A, B), "add")
	case 1:
		r, err := a.Sub(b)
		c13CheckResult(r, err, new(big.Int).Sub(A, B), "sub")
	case 2:
		r, err := a.Max(b)
		ex := A
		if bigLt(A, B) {
			ex = B
		}
		c13CheckResult(r, err, ex, "max")
	case 3:
		r, err := a.Min(b)
		ex := A
		if bigLt(B, A) {
			ex = B
		}
		c13CheckResult(r, err, ex, "min")
	case 4:
		c := a.Cmp(b)
		if bigLt(A, B) {
			assert(c == -1, "cmp-lt")
		} else if bigEq(A, B) {
			assert(c == 0, "cmp-eq")
		} else {
			assert(c == 1, "cmp-gt")
		}
	}
}

// Harness_C13_divmod: DIV truncates toward zero, MOD takes the dividend's sign, zero divisor faults.
func Harness_C13_divmod() {
	// symbolic/symbolic big division is nonlinear: the big representation is bounded by param bigbits
	a, A := c13OperandBits("a", param("bigbits"))
	b, B := c13OperandBits("b", param("bigbits"))
	isDiv := nondetBool("div")
	if B.Sign() == 0 {
		var err error
		if isDiv {
			_, err = a.Div(b)
		} else {
			_, err = a.Mod(b)
		}
		assert(err != nil, "zero-divisor-faults")
		return
	}
	minDivMinusOne := and(bigEq(A, bigFromI64(math.MinInt64)), bigEq(B, bigFromI64(-1)))
	if isDiv {
		inKF := knownFinding("C13-minint64-div-minus-one", minDivMinusOne)
		_ = inKF
		r, err := a.Div(b)
		c13CheckResult(r, err, new(big.Int).Quo(A, B), "div")
	} else {
		r, err := a.Mod(b)
		c13CheckResult(r, err, new(big.Int).Rem(A, B), "mod")
	}
}

// easy (powers of two, 0, +-1) first; constants whose modular products stall the back ends last.
var c13MulConsts = []int64{0, 1, -1, 2, -2, 256, 1 << 31, -(1 << 31), 1 << 32, 1 << 62, -(1 << 62), math.MinInt64,
	3, 255, 1<<31 - 1, 1<<32 + 1, 1000000000, 1<<62 + 1, math.MinInt64 + 1, math.MaxInt64, math.MaxInt64 - 1,
	10, -10, 3037000500, -3037000500}

// Harness_C13_mul: MUL with one operand from a table of boundary constants, the other arbitrary (both orders).
// Full 64x64 symbolic multiplication is outside the claim (no back end decides it).
func Harness_C13_mul() {
	k := c13MulConsts[nondetRange("k", param("nconsts"))]
	a, A := c13Operand("a")
	b, B := IntValFromInt(k), big.NewInt(k)
	if nondetBool("swap") {
		r, err := b.Mul(a)
		c13CheckResult(r, err, new(big.Int).Mul(B, A), "mul")
	} else {
		r, err := a.Mul(b)
		c13CheckResult(r, err, new(big.Int).Mul(A, B), "mul")
	}
}

// Harness_C13_unary: ABS, NOT, sign, zero test.
func Harness_C13_unary() {
	a, A := c13Operand("a")
	switch nondetRange("op", 4) {
	case 0:
		r := a.Abs()
		assert(bigEq(c13Value(r), new(big.Int).Abs(A)), "abs-exact")
	case 1:
		r := a.Not()
		// ^x = -x-1
		ex := new(big.Int).Sub(new(big.Int).Neg(A), big.NewInt(1))
		assert(bigEq(c13Value(r), ex), "not-exact")
	case 2:
		assert(a.Sign() == A.Sign(), "sign")
	case 3:
		assert(a.IsZero() == (A.Sign() == 0), "iszero")
	}
}

// Harness_C13_shift: LSH/RSH by any amount; negative amounts fault; results exact (floor for RSH).
func Harness_C13_shift() {
	a, A := c13Operand("a")
	n := nondetI64("n")
	left := nondetBool("left")
	if n < 0 {
		var err error
		if left {
			_, err = a.Lsh(IntValFromInt(n))
		} else {
			_, err = a.Rsh(IntValFromInt(n))
		}
		assert(err != nil, "negative-shift-faults")
		return
	}
	if n > 256 {
		if left {
			_, err := a.Lsh(IntValFromInt(n))
			if A.Sign() != 0 {
				assert(err != nil, "lsh-huge-faults")
			}
		} else {
			r, err := a.Rsh(IntValFromInt(n))
			assert(err == nil, "rsh-huge-ok")
			if A.Sign() < 0 {
				assert(bigEq(c13Value(r), big.NewInt(-1)), "rsh-huge-neg")
			} else {
				assert(bigEq(c13Value(r), big.NewInt(0)), "rsh-huge-pos")
			}
		}
		return
	}
	k := concretize(int(n), 0, 256)
	if left {
		r, err := a.Lsh(IntValFromInt(int64(k)))
		c13CheckResult(r, err, new(big.Int).Lsh(A, uint(k)), "lsh")
	} else {
		r, err := a.Rsh(IntValFromInt(int64(k)))
		c13CheckResult(r, err, new(big.Int).Rsh(A, uint(k)), "rsh")
	}
}

// Harness_C13_bitwise: AND/OR/XOR agree between the machine and the big representation.
func Harness_C13_bitwise() {
	x, y := nondetI64("x"), nondetI64("y")
	a, b := IntValFromInt(x), IntValFromInt(y)
	switch nondetRange("op", 3) {
	case 0:
		r, err := a.And(b)
		assert(err == nil, "and-ok")
		assert(!r.isbig, "and-small")
		assert(r.integer == x&y, "and-exact")
	case 1:
		r, err := a.Or(b)
		assert(err == nil, "or-ok")
		assert(!r.isbig, "or-small")
		assert(r.integer == x|y, "or-exact")
	case 2:
		r, err := a.Xor(b)
		assert(err == nil, "xor-ok")
		assert(!r.isbig, "xor-small")
		assert(r.integer == x^y, "xor-exact")
	}
}
