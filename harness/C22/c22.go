package common

import (
	"crypto/sha256"
	"math/big"

	"github.com/itchyny/base58-go"
)

// C22: base58 and hex address encodings round-trip and reject corruption.
// The real Address.ToBase58 / AddressFromBase58 / ToHexString / AddressFromHexString run symbolically; the
// third-party base58 library and the decimal text between it and math/big are replaced by their arithmetic
// meaning (engine/sym/base58.go); sha256 is ideal.

func Harness_C22_base58_roundtrip() {
	var a Address
	copy(a[:], nondetBytes("addr", ADDR_LEN))
	s := a.ToBase58()
	cover("c22-encoded")
	assert(len(s) <= MaxBase58AddrLen && len(s) > 0, "encoding-length-within-limit")
	b, err := AddressFromBase58(s)
	assert(err == nil, "encoding-decodes")
	if err == nil {
		assert(b == a, "base58-roundtrip")
	}
}

// Harness_C22_base58_strings: any string of `len` characters that AddressFromBase58 accepts is exactly the
// encoding of the address it returns (so a changed, added or missing character is rejected).
func Harness_C22_base58_strings() {
	n := param("minlen") + nondetRange("len", param("maxlen")-param("minlen")+1)
	s := string(nondetBytes("str", n))
	a, err := AddressFromBase58(s)
	cover("c22-decode-returned")
	if err != nil {
		return
	}
	cover("c22-accepted")
	assert(a.ToBase58() == s, "accepted-string-is-the-encoding-of-the-returned-address")
}


// Harness_C22_corrupt_payload: the base58 text of a payload that differs from a valid one in the version byte
// or in one checksum byte is rejected.
func Harness_C22_corrupt_payload() {
	var a Address
	copy(a[:], nondetBytes("addr", ADDR_LEN))
	data := append([]byte{23}, a[:]...)
	temp := sha256.Sum256(data)
	temps := sha256.Sum256(temp[:])
	data = append(data, temps[0:4]...)
	// corrupt exactly one byte
	// (an address byte is not corrupted here: another address whose 4-byte checksum happens to coincide is a
	// valid encoding by construction of the format, not a decoder defect)
	pos := []int{0, 21, 22, 23, 24}[nondetRange("corrupt.pos", 5)]
	mask := nondetU8("corrupt.mask")
	assume(mask != 0)
	bad := append([]byte{}, data...)
	bad[pos] ^= mask
	assume(bad[0] != 0) // a zero leading byte shortens the number (the string is then a different, shorter payload)
	enc, err := base58.BitcoinEncoding.Encode([]byte(new(big.Int).SetBytes(bad).String()))
	assume(err == nil)
	_, derr := AddressFromBase58(string(enc))
	cover("c22-corrupt-returned")
	assert(derr != nil, "corrupted-payload-rejected")
}
