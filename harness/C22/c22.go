package common

// C22: base58 and hex address encodings round-trip and reject corruption.
// The real Address.ToBase58 / AddressFromBase58 / ToHexString / AddressFromHexString run symbolically; the
// third-party base58 library and the decimal text between it and math/big are replaced by their arithmetic
// meaning (engine/sym/base58.go); sha256 is ideal.

func Harness_C22_base58_roundtrip() {
	var a Address
	copy(a[:], nondetBytes("addr", ADDR_LEN))
	s := a.ToBase58()
	cover("c22-encoded")
	assert(len(s) <= MaxBase58AddrLen && len(s) > 0, "encoding-length-within-limit")
	b, err := AddressFromBase58(s)
	assert(err == nil, "encoding-decodes")
	if err == nil {
		assert(b == a, "base58-roundtrip")
	}
}

// Harness_C22_base58_strings: any string of `len` characters that AddressFromBase58 accepts is exactly the
// encoding of the address it returns (so a changed, added or missing character is rejected).
func Harness_C22_base58_strings() {
	n := param("minlen") + nondetRange("len", param("maxlen")-param("minlen")+1)
	s := string(nondetBytes("str", n))
	a, err := AddressFromBase58(s)
	cover("c22-decode-returned")
	if err != nil {
		return
	}
	cover("c22-accepted")
	assert(a.ToBase58() == s, "accepted-string-is-the-encoding-of-the-returned-address")
}

