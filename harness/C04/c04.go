package storage

import (
	"bytes"

	"github.com/ontio/ontology/core/store/common"
	"github.com/ontio/ontology/core/store/overlaydb"
)

// C04: the transaction cache, the block overlay and the persistent store together behave like one
// ordered key/value map.

// ---- persistent store model (LevelDB's contract: ordered map, prefix iterators) ----

type c04KV struct{ k, v []byte }

type c04Store struct{ es []c04KV } // sorted by key

func (s *c04Store) find(key []byte) int {
	for i := range s.es {
		if bytes.Equal(s.es[i].k, key) {
			return i
		}
	}
	return -1
}
func (s *c04Store) set(key, val []byte) {
	if i := s.find(key); i >= 0 {
		s.es[i].v = val
		return
	}
	i := 0
	for i < len(s.es) && bytes.Compare(s.es[i].k, key) < 0 {
		i++
	}
	s.es = append(s.es, c04KV{})
	copy(s.es[i+1:], s.es[i:])
	s.es[i] = c04KV{append([]byte{}, key...), append([]byte{}, val...)}
}
func (s *c04Store) del(key []byte) {
	if i := s.find(key); i >= 0 {
		s.es = append(s.es[:i], s.es[i+1:]...)
	}
}
func (s *c04Store) Put(key []byte, value []byte) error { s.set(key, value); return nil }
func (s *c04Store) Get(key []byte) ([]byte, error) {
	if i := s.find(key); i >= 0 {
		return s.es[i].v, nil
	}
	return nil, common.ErrNotFound
}
func (s *c04Store) Has(key []byte) (bool, error)      { return s.find(key) >= 0, nil }
func (s *c04Store) Delete(key []byte) error           { s.del(key); return nil }
func (s *c04Store) NewBatch()                         {}
func (s *c04Store) BatchPut(key []byte, value []byte) { s.set(key, value) }
func (s *c04Store) BatchDelete(key []byte)            { s.del(key) }
func (s *c04Store) BatchCommit() error                { return nil }
func (s *c04Store) Close() error                      { return nil }
func (s *c04Store) NewIterator(prefix []byte) common.StoreIterator {
	it := &c04Iter{pos: -1}
	for _, e := range s.es {
		if bytes.HasPrefix(e.k, prefix) {
			it.es = append(it.es, e)
		}
	}
	return it
}

type c04Iter struct {
	es  []c04KV
	pos int
}

func (i *c04Iter) First() bool { i.pos = 0; return i.pos < len(i.es) }
func (i *c04Iter) Next() bool {
	if i.pos < len(i.es) {
		i.pos++
	}
	return i.pos < len(i.es)
}
func (i *c04Iter) Key() []byte {
	if i.pos >= 0 && i.pos < len(i.es) {
		return i.es[i.pos].k
	}
	return nil
}
func (i *c04Iter) Value() []byte {
	if i.pos >= 0 && i.pos < len(i.es) {
		return i.es[i.pos].v
	}
	return nil
}
func (i *c04Iter) Release()     {}
func (i *c04Iter) Error() error { return nil }

// c04RandHeight replaces MemDB.randHeight (see spec.json).
func c04RandHeight(p *overlaydb.MemDB) int {
	return 1 + nondetRange("height", param("maxheight"))
}

// ---- reference: three shadow layers ----

type c04Layer struct{ es []c04KV } // touched keys; empty value = deleted

func (l *c04Layer) lookup(key []byte) ([]byte, bool) {
	for i := range l.es {
		if bytes.Equal(l.es[i].k, key) {
			return l.es[i].v, true
		}
	}
	return nil, false
}
func (l *c04Layer) set(key, val []byte) {
	for i := range l.es {
		if bytes.Equal(l.es[i].k, key) {
			l.es[i].v = val
			return
		}
	}
	l.es = append(l.es, c04KV{key, val})
}

type c04Ref struct {
	cache, overlay, store c04Layer
	keys                  [][]byte // every key ever mentioned
}

func (r *c04Ref) get(key []byte) []byte {
	if v, ok := r.cache.lookup(key); ok {
		return v
	}
	if v, ok := r.overlay.lookup(key); ok {
		return v
	}
	v, _ := r.store.lookup(key)
	return v
}

func c04Key(tag string) []byte {
	return nondetBytes(tag, 1+nondetRange(tag+".len", param("maxkeylen")))
}

// Harness_C04_layers: any sequence of put / delete / commit / reset on the transaction cache over a
// pre-populated persistent store; then a point read and a prefix iteration agree with the reference.
func Harness_C04_layers() {
	st := &c04Store{}
	ref := &c04Ref{}
	pre := nondetRange("preloaded", param("maxpre")+1)
	for i := 0; i < pre; i++ {
		k := c04Key("pre.key")
		v := nondetBytes("pre.val", 1)
		if _, dup := ref.store.lookup(k); dup {
			continue
		}
		st.set(append([]byte{byte(common.ST_STORAGE)}, k...), v)
		ref.store.set(k, v)
		ref.keys = append(ref.keys, k)
	}
	overlay := overlaydb.NewOverlayDB(st)
	cache := NewCacheDB(overlay)
	ops := param("ops")
	for i := 0; i < ops; i++ {
		switch nondetRange("op", 4) {
		case 0:
			k := c04Key("key")
			v := nondetBytes("val", 1)
			cache.Put(k, v)
			ref.cache.set(k, v)
			ref.keys = append(ref.keys, k)
		case 1:
			k := c04Key("key")
			cache.Delete(k)
			ref.cache.set(k, nil)
			ref.keys = append(ref.keys, k)
		case 2:
			cache.Commit()
			for _, e := range ref.cache.es {
				ref.overlay.set(e.k, e.v)
			}
			ref.cache = c04Layer{}
		default:
			cache.Reset()
			ref.cache = c04Layer{}
		}
	}
	// point read
	probe := c04Key("probe")
	got, err := cache.Get(probe)
	assert(err == nil, "get-no-error")
	want := ref.get(probe)
	assert(len(got) == len(want), "get-returns-most-recent-write-length")
	if len(got) == len(want) {
		assert(bytesEq(got, want), "get-returns-most-recent-write")
	}
	// prefix iteration
	prefix := nondetBytes("prefix", nondetRange("prefix.len", 2))
	var exp []c04KV
	for _, k := range ref.keys {
		if !bytes.HasPrefix(k, prefix) {
			continue
		}
		v := ref.get(k)
		if len(v) == 0 {
			continue
		}
		// insert sorted, skipping duplicates
		i := 0
		dup := false
		for i < len(exp) {
			c := bytes.Compare(exp[i].k, k)
			if c == 0 {
				dup = true
				break
			}
			if c > 0 {
				break
			}
			i++
		}
		if dup {
			continue
		}
		exp = append(exp, c04KV{})
		copy(exp[i+1:], exp[i:])
		exp[i] = c04KV{k, v}
	}
	it := cache.NewIterator(prefix)
	n := 0
	for has := it.First(); has; has = it.Next() {
		assert(n < len(exp), "iterator-yields-no-extra-key")
		if n >= len(exp) {
			break
		}
		k, v := it.Key(), it.Value()
		assert(len(k) == len(exp[n].k) && bytesEq(k, exp[n].k), "iterator-keys-ascending-live-with-prefix")
		assert(len(v) == len(exp[n].v) && bytesEq(v, exp[n].v), "iterator-values-most-recent")
		n++
	}
	it.Release()
	assert(n == len(exp), "iterator-yields-every-live-key")
}
