package storage

import (
	comm "github.com/ontio/ontology/common"
	"github.com/ontio/ontology/common/config"
	"github.com/ontio/ontology/core/store/common"
	"github.com/ontio/ontology/core/store/overlaydb"
)

// C44: contract migration and destruction move or remove all of the contract's storage.

func c44Addr(b byte) comm.Address {
	var a comm.Address
	for i := range a {
		a[i] = b
	}
	return a
}

type c44Entry struct {
	suffix, val []byte
	live        bool
}

// Harness_C44_migrate_destroy: storage entries of the old contract are spread by a symbolic choice over
// the transaction cache, the block overlay, the persistent store, or tombstoned in the cache; then the
// contract is migrated or destroyed (the code iterates while writing).
func Harness_C44_migrate_destroy() {
	oldA, newA, otherA := c44Addr(0x11), c44Addr(0x22), c44Addr(0x33)
	st := &c04Store{}
	overlay := overlaydb.NewOverlayDB(st)
	cache := NewCacheDB(overlay)
	n := nondetRange("entries", param("maxentries")+1)
	var es []c44Entry
	pkey := func(addr comm.Address, suffix []byte) []byte {
		k := []byte{byte(common.ST_STORAGE)}
		k = append(k, addr[:]...)
		return append(k, suffix...)
	}
	for i := 0; i < n; i++ {
		suf := nondetBytes("suffix", nondetRange("suffix.len", param("maxsuffix")+1))
		dup := false
		for _, e := range es {
			if len(e.suffix) == len(suf) && bytesEq(e.suffix, suf) {
				dup = true
			}
		}
		if dup {
			continue
		}
		val := nondetBytes("val", 1)
		e := c44Entry{suffix: suf, val: val, live: true}
		switch nondetRange("where", 4) {
		case 0: // pending in the transaction cache
			cache.Put(serializeStorageKey(oldA, suf), val)
		case 1: // in the block overlay
			overlay.Put(pkey(oldA, suf), val)
		case 2: // in the persistent store
			st.set(pkey(oldA, suf), val)
		default: // in the store but deleted in the cache
			st.set(pkey(oldA, suf), val)
			cache.Delete(serializeStorageKey(oldA, suf))
			e.live = false
		}
		es = append(es, e)
	}
	// a bystander contract
	oval := nondetBytes("other.val", 1)
	st.set(pkey(otherA, []byte{7}), oval)
	height := nondetU32("blockheight")
	migrate := nondetBool("migrate")
	var err error
	if migrate {
		err = cache.MigrateContractStorage(oldA, newA, height)
	} else {
		err = cache.CleanContractStorage(oldA, height)
	}
	assert(err == nil, "operation-succeeds")
	for _, e := range es {
		ov, _ := cache.Get(serializeStorageKey(oldA, e.suffix))
		assert(len(ov) == 0, "no-entry-left-under-old-address")
		nv, _ := cache.Get(serializeStorageKey(newA, e.suffix))
		if migrate && e.live {
			assert(len(nv) == len(e.val) && bytesEq(nv, e.val), "live-entry-readable-under-new-address")
		} else {
			assert(len(nv) == 0, "nothing-invented-under-new-address")
		}
	}
	it := cache.NewIterator(oldA[:])
	assert(!it.First(), "iterator-finds-nothing-under-old-address")
	it.Release()
	bv, _ := cache.Get(serializeStorageKey(otherA, []byte{7}))
	assert(len(bv) == 1 && bytesEq(bv, oval), "bystander-contract-untouched")
	// destroyed-contract tracking
	destroyed, derr := cache.IsContractDestroyed(oldA)
	assert(derr == nil, "destroyed-flag-readable")
	if height >= config.GetTrackDestroyedContractHeight() {
		assert(destroyed, "old-address-marked-destroyed-when-tracking-active")
		_, d2, _ := cache.GetContract(oldA)
		assert(d2, "getcontract-reports-destroyed")
	} else {
		assert(!destroyed, "no-mark-before-tracking-height")
	}
	// after commit of the cache the same holds in the overlay
	cache.Commit()
	for _, e := range es {
		ov, _ := overlay.Get(pkey(oldA, e.suffix))
		assert(len(ov) == 0, "no-entry-left-under-old-address-after-commit")
	}
}
