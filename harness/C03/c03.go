package overlaydb

import (
	"bytes"
)

// C03: the block change hash / write set depend only on the final content of each touched key.

type c03Entry struct {
	key, val []byte
}

// c03Ref is the reference: last write wins, a delete leaves an empty value, entries sorted by key.
type c03Ref struct {
	es []c03Entry
}

func (r *c03Ref) set(key, val []byte) {
	for i := range r.es {
		c := bytes.Compare(r.es[i].key, key)
		if c == 0 {
			r.es[i].val = val
			return
		}
		if c > 0 {
			r.es = append(r.es, c03Entry{})
			copy(r.es[i+1:], r.es[i:])
			r.es[i] = c03Entry{key, val}
			return
		}
	}
	r.es = append(r.es, c03Entry{key, val})
}

func c03Key(tag string) []byte {
	return nondetBytes(tag, 1+nondetRange(tag+".len", param("maxkeylen")))
}

// c03RandHeight replaces MemDB.randHeight (see spec.json): any height up to param maxheight.
func c03RandHeight(p *MemDB) int {
	return 1 + nondetRange("height", param("maxheight"))
}

// Harness_C03_stream: after any sequence of put / delete / overwrite operations the byte stream fed to the
// change hash and the write set enumerate exactly the reference content in key order.
func Harness_C03_stream() {
	db := NewOverlayDB(nil)
	ref := &c03Ref{}
	k := param("ops")
	for i := 0; i < k; i++ {
		key := c03Key("key")
		if nondetBool("delete") {
			db.Delete(key)
			ref.set(key, nil)
		} else {
			val := nondetBytes("val", nondetRange("val.len", param("maxvallen")+1))
			db.Put(key, val)
			ref.set(key, val)
		}
	}
	var got []c03Entry
	db.GetWriteSet().ForEach(func(key, val []byte) {
		got = append(got, c03Entry{key, val})
	})
	assert(len(got) == len(ref.es), "write-set-size-is-number-of-touched-keys")
	if len(got) != len(ref.es) {
		return
	}
	for i := range got {
		assert(len(got[i].key) == len(ref.es[i].key) && bytesEq(got[i].key, ref.es[i].key), "keys-in-reference-order")
		assert(len(got[i].val) == len(ref.es[i].val), "final-value-length")
		if len(got[i].val) == len(ref.es[i].val) {
			assert(bytesEq(got[i].val, ref.es[i].val), "final-value-content")
		}
	}
	// reads agree with the reference too
	probe := c03Key("probe")
	v, unknown := db.GetWriteSet().Get(probe)
	found := false
	for i := range ref.es {
		if bytes.Equal(ref.es[i].key, probe) {
			found = true
			assert(!unknown, "touched-key-is-known")
			assert(len(v) == len(ref.es[i].val) && bytesEq(v, ref.es[i].val), "read-returns-last-write")
		}
	}
	if !found {
		assert(unknown, "untouched-key-is-unknown")
	}
}

// Harness_C03_hash_order: two different operation histories with the same final content give the same hash.
func Harness_C03_hash_order() {
	a, b := NewOverlayDB(nil), NewOverlayDB(nil)
	k1, k2 := c03Key("k1"), c03Key("k2")
	v1 := nondetBytes("v1", nondetRange("v1.len", param("maxvallen")+1))
	v2 := nondetBytes("v2", nondetRange("v2.len", param("maxvallen")+1))
	junk := nondetBytes("junk", 1)
	// history A: k1, k2 in order; history B: k2 first with a junk value, delete, k1, then final k2
	a.Put(k1, v1)
	a.Put(k2, v2)
	b.Put(k2, junk)
	b.Delete(k2)
	b.Put(k1, junk)
	b.Put(k1, v1)
	b.Put(k2, v2)
	assert(a.ChangeHash() == b.ChangeHash(), "change-hash-independent-of-history")
}
