package overlaydb

import (
	"bytes"

	scom "github.com/ontio/ontology/core/store/common"
)

// c03Store is the persisted store under the overlay: one entry with symbolic key and value.
type c03Store struct{ key, val []byte }

func (s *c03Store) Put(key []byte, value []byte) error { return nil }
func (s *c03Store) Get(key []byte) ([]byte, error) {
	if bytes.Equal(key, s.key) {
		return s.val, nil
	}
	return nil, scom.ErrNotFound
}
func (s *c03Store) Has(key []byte) (bool, error)                 { return bytes.Equal(key, s.key), nil }
func (s *c03Store) Delete(key []byte) error                      { return nil }
func (s *c03Store) NewBatch()                                    {}
func (s *c03Store) BatchPut(key []byte, value []byte)            {}
func (s *c03Store) BatchDelete(key []byte)                       {}
func (s *c03Store) BatchCommit() error                           { return nil }
func (s *c03Store) Close() error                                 { return nil }
func (s *c03Store) NewIterator(prefix []byte) scom.StoreIterator { return nil }

func c03NewStore() *c03Store {
	return &c03Store{key: c03Key("pkey"), val: nondetBytes("pval", 1+nondetRange("pval.len", 2))}
}

// C03: the block change hash / write set depend only on the final content of each touched key.

type c03Entry struct {
	key, val []byte
}

// c03Ref is the reference: last write wins, a delete leaves an empty value, entries sorted by key.
type c03Ref struct {
	es []c03Entry
}

func (r *c03Ref) set(key, val []byte) {
	for i := range r.es {
		c := bytes.Compare(r.es[i].key, key)
		if c == 0 {
			r.es[i].val = val
			return
		}
		if c > 0 {
			r.es = append(r.es, c03Entry{})
			copy(r.es[i+1:], r.es[i:])
			r.es[i] = c03Entry{key, val}
			return
		}
	}
	r.es = append(r.es, c03Entry{key, val})
}

func c03Key(tag string) []byte {
	return nondetBytes(tag, 1+nondetRange(tag+".len", param("maxkeylen")))
}

// c03RandHeight replaces MemDB.randHeight (see spec.json): any height up to param maxheight.
func c03RandHeight(p *MemDB) int {
	return 1 + nondetRange("height", param("maxheight"))
}

// Harness_C03_stream: after any sequence of put / delete / overwrite operations the byte stream fed to the
// change hash and the write set enumerate exactly the reference content in key order.
func Harness_C03_stream() {
	db := NewOverlayDB(c03NewStore())
	ref := &c03Ref{}
	k := param("ops")
	for i := 0; i < k; i++ {
		key := c03Key("key")
		if nondetBool("delete") {
			db.Delete(key)
			ref.set(key, nil)
		} else {
			val := nondetBytes("val", nondetRange("val.len", param("maxvallen")+1))
			db.Put(key, val)
			ref.set(key, val)
		}
	}
	var got []c03Entry
	db.GetWriteSet().ForEach(func(key, val []byte) {
		got = append(got, c03Entry{key, val})
	})
	assert(len(got) == len(ref.es), "write-set-size-is-number-of-touched-keys")
	if len(got) != len(ref.es) {
		return
	}
	for i := range got {
		assert(len(got[i].key) == len(ref.es[i].key) && bytesEq(got[i].key, ref.es[i].key), "keys-in-reference-order")
		assert(len(got[i].val) == len(ref.es[i].val), "final-value-length")
		if len(got[i].val) == len(ref.es[i].val) {
			assert(bytesEq(got[i].val, ref.es[i].val), "final-value-content")
		}
	}
	// reads agree with the reference too
	probe := c03Key("probe")
	v, unknown := db.GetWriteSet().Get(probe)
	found := false
	for i := range ref.es {
		if bytes.Equal(ref.es[i].key, probe) {
			found = true
			assert(!unknown, "touched-key-is-known")
			assert(len(v) == len(ref.es[i].val) && bytesEq(v, ref.es[i].val), "read-returns-last-write")
		}
	}
	if !found {
		assert(unknown, "untouched-key-is-unknown")
	}
}

// Harness_C03_hash_order: two different operation histories with the same final content give the same hash.
func Harness_C03_hash_order() {
	st := c03NewStore()
	a, b := NewOverlayDB(st), NewOverlayDB(st)
	k1, k2 := c03Key("k1"), c03Key("k2")
	v1 := nondetBytes("v1", nondetRange("v1.len", param("maxvallen")+1))
	v2 := nondetBytes("v2", nondetRange("v2.len", param("maxvallen")+1))
	junk := nondetBytes("junk", 1)
	// history A: k1, k2 in order; history B: k2 first with a junk value, delete, k1, then final k2
	a.Put(k1, v1)
	a.Put(k2, v2)
	b.Put(k2, junk)
	b.Delete(k2)
	b.Put(k1, junk)
	b.Put(k1, v1)
	b.Put(k2, v2)
	assert(a.ChangeHash() == b.ChangeHash(), "change-hash-independent-of-history")
}

// Harness_C03_overwrite: one key written, optionally deleted, and written again with values of any lengths
// up to maxvallen (prefixes, shorter, longer, equal): the write set holds exactly the last write.
func Harness_C03_overwrite() {
	db := NewOverlayDB(c03NewStore())
	key := c03Key("key")
	v1 := nondetBytes("v1", nondetRange("v1.len", param("maxvallen")+1))
	v2 := nondetBytes("v2", nondetRange("v2.len", param("maxvallen")+1))
	db.Put(key, v1)
	if nondetBool("delete") {
		db.Delete(key)
	}
	db.Put(key, v2)
	n := 0
	db.GetWriteSet().ForEach(func(k, val []byte) {
		n++
		assert(len(k) == len(key) && bytesEq(k, key), "overwrite-key")
		assert(len(val) == len(v2), "overwrite-last-value-length")
		if len(val) == len(v2) {
			assert(bytesEq(val, v2), "overwrite-last-value-content")
		}
	})
	assert(n == 1, "overwrite-one-entry")
	got, err := db.Get(key)
	assert(err == nil && len(got) == len(v2) && (len(got) != len(v2) || bytesEq(got, v2)), "overwrite-read-back")
}
