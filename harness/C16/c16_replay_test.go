package validation

// Native demonstration (real P-256 key) of the known finding C16-duplicate-key-in-multisig-script:
// a 2-of-2 verification script that lists the SAME key twice, with that key's signature supplied twice,
// is accepted by the transaction validator: one signer satisfies a threshold of two.

import (
	"fmt"
	"testing"

	"github.com/ontio/ontology-crypto/keypair"
	"github.com/ontio/ontology/account"
	"github.com/ontio/ontology/common"
	"github.com/ontio/ontology/core/payload"
	"github.com/ontio/ontology/core/signature"
	"github.com/ontio/ontology/core/types"
)

func TestC16DuplicateKeyMultisig(t *testing.T) {
	a := account.NewAccount("")
	kb := keypair.SerializePublicKey(a.PublicKey)
	// verification script written by hand: PUSH2, key, key, PUSH2, CHECKMULTISIG
	ver := []byte{0x52, byte(len(kb))}
	ver = append(ver, kb...)
	ver = append(ver, byte(len(kb)))
	ver = append(ver, kb...)
	ver = append(ver, 0x52, 0xae)
	payer := common.AddressFromVmCode(ver)
	mtx := &types.MutableTransaction{TxType: types.InvokeNeo, Nonce: 1, GasPrice: 0, GasLimit: 20000, Payer: payer,
		Payload: &payload.InvokeCode{Code: []byte{0x51}}}
	unsignedTx, err := mtx.IntoImmutable()
	if err != nil {
		t.Fatal(err)
	}
	hash := unsignedTx.Hash()
	sig, err := signature.Sign(a, hash[:])
	if err != nil {
		t.Fatal(err)
	}
	inv := []byte{byte(len(sig))}
	inv = append(inv, sig...)
	inv = append(inv, byte(len(sig)))
	inv = append(inv, sig...)
	// raw transaction = unsigned part + 1 signature set
	raw := unsignedTx.ToArray()
	raw = raw[:len(raw)-1] // drop the "0 signatures" var-uint
	sink := common.NewZeroCopySink(nil)
	sink.WriteBytes(raw)
	sink.WriteVarUint(1)
	sink.WriteVarBytes(inv)
	sink.WriteVarBytes(ver)
	tx, err := types.TransactionFromRawBytes(sink.Bytes())
	if err != nil {
		t.Fatal(err)
	}
	if err := checkTransactionSignatures(tx); err == nil {
		fmt.Println("VERIF-REPLAY: ASSERT-FAILED every-set-has-m-distinct-valid-signers (2-of-2 script [A,A] accepted with one signer)")
	} else {
		fmt.Println("VERIF-REPLAY: OK rejected:", err)
	}
}
