package signature

import (
	"github.com/ontio/ontology-crypto/keypair"
	s "github.com/ontio/ontology-crypto/signature"
)

// Harness_C16_multisig_positions: VerifyMultiSignature with `nkeys` pairwise distinct keys (more than 8) and
// threshold 2 accepts two signatures only if they verify under two DIFFERENT keys, wherever in the key list
// those keys sit. Keys and signatures are ideal (engine/sym/crypto.go).
func Harness_C16_multisig_positions() {
	n := param("nkeys")
	var keys []keypair.PublicKey
	for i := 0; i < n; i++ {
		k, err := keypair.DeserializePublicKey(nondetBytes("key", 4))
		assume(err == nil)
		for _, o := range keys {
			assume(!keypair.ComparePublicKey(o, k))
		}
		keys = append(keys, k)
	}
	data := nondetBytes("data", 4)
	sigs := [][]byte{nondetBytes("sig", 4), nondetBytes("sig", 4)}
	err := VerifyMultiSignature(data, keys, 2, sigs)
	cover("returned")
	if err != nil {
		return
	}
	cover("accepted")
	so0, e0 := s.Deserialize(sigs[0])
	so1, e1 := s.Deserialize(sigs[1])
	assert(e0 == nil && e1 == nil, "accepted-signatures-are-well-formed")
	if e0 != nil || e1 != nil {
		return
	}
	// ghost: number of distinct keys with a verifying signature
	cnt := 0
	for _, k := range keys {
		cnt += iteInt(or(s.Verify(k, data, so0), s.Verify(k, data, so1)), 1, 0)
	}
	assert(cnt >= 2, "two-signatures-from-two-distinct-keys")
}
