package validation

import (
	"github.com/ontio/ontology-crypto/keypair"
	s "github.com/ontio/ontology-crypto/signature"
	"github.com/ontio/ontology/common"
	"github.com/ontio/ontology/core/types"
)

// C16 / C17 shared transaction builder: an Ontology-format invoke transaction whose signature sets are
// raw scripts over 4-byte key blobs (abstract keys, engine/sym/crypto.go) written directly as bytes, so
// that unsorted, duplicated and non-canonically encoded keys are all representable.

type c16Set struct {
	m     int
	blobs [][]byte // key blobs as they appear in the verification script
	sigs  [][]byte
	multi bool
}

func c16BuildTx(maxSets, maxKeys int) ([]byte, []c16Set, []byte) {
	raw := []byte{0, byte(types.InvokeNeo)}
	raw = append(raw, make([]byte, 4+8+8)...)
	payer := nondetBytes("payer", 20)
	raw = append(raw, payer...)
	raw = append(raw, 1, nondetU8("code"), 0) // code, attributes
	nsets := 1 + nondetRange("nsets", maxSets)
	raw = append(raw, byte(nsets))
	var sets []c16Set
	for i := 0; i < nsets; i++ {
		var set c16Set
		n := 1 + nondetRange("nkeys", maxKeys)
		set.multi = n > 1
		set.m = 1
		if set.multi {
			set.m = 1 + nondetRange("m", n)
		}
		ns := set.m // m signatures, or up to `extrasigs` spare ones (never more than keys)
		if set.multi && param("extrasigs") > 0 {
			ns += nondetRange("extrasigs", param("extrasigs")+1)
			if ns > n {
				ns = n
			}
		}
		var inv []byte
		for j := 0; j < ns; j++ {
			sg := nondetBytes("sig", 4)
			set.sigs = append(set.sigs, sg)
			inv = append(inv, 4)
			inv = append(inv, sg...)
		}
		var ver []byte
		if set.multi {
			ver = append(ver, byte(0x50+set.m))
		}
		for j := 0; j < n; j++ {
			kb := nondetBytes("keyblob", 4)
			set.blobs = append(set.blobs, kb)
			ver = append(ver, 4)
			ver = append(ver, kb...)
		}
		if set.multi {
			ver = append(ver, byte(0x50+n), 0xae)
		} else {
			ver = append(ver, 0xac)
		}
		raw = append(raw, byte(len(inv)))
		raw = append(raw, inv...)
		raw = append(raw, byte(len(ver)))
		raw = append(raw, ver...)
		sets = append(sets, set)
	}
	return raw, sets, payer
}

// c16DistinctValid: number of DISTINCT key identities of the set that have a verifying signature.
func c16DistinctValid(set c16Set, hash common.Uint256) int {
	var keys []keypair.PublicKey
	for _, b := range set.blobs {
		k, err := keypair.DeserializePublicKey(b)
		if err != nil {
			return -1
		}
		keys = append(keys, k)
	}
	var sigs []*s.Signature
	for _, blob := range set.sigs {
		if so, e := s.Deserialize(blob); e == nil {
			sigs = append(sigs, so)
		}
	}
	has := make([]bool, len(keys))
	for j, k := range keys {
		for _, so := range sigs {
			has[j] = or(has[j], s.Verify(k, hash[:], so))
		}
	}
	count := 0
	for j := range keys {
		first := has[j]
		for l := 0; l < j; l++ {
			first = and(first, !and(keypair.ComparePublicKey(keys[l], keys[j]), has[l]))
		}
		count += iteInt(first, 1, 0)
	}
	return count
}

func c16HasDuplicateKey(set c16Set) bool {
	var keys []keypair.PublicKey
	for _, b := range set.blobs {
		k, err := keypair.DeserializePublicKey(b)
		if err != nil {
			return false
		}
		keys = append(keys, k)
	}
	dup := false
	for j := range keys {
		for l := 0; l < j; l++ {
			dup = or(dup, keypair.ComparePublicKey(keys[l], keys[j]))
		}
	}
	return dup
}

// Harness_C16_signed_by_m_distinct_keys: the validator accepts only if every signature set verifies with at
// least m DISTINCT keys over the transaction hash and the payer is one of the derived signer accounts.
func Harness_C16_signed_by_m_distinct_keys() {
	raw, sets, payer := c16BuildTx(param("maxsets"), param("maxkeys"))
	tx, err := types.TransactionFromRawBytes(raw)
	assert(err == nil, "built-transaction-decodes")
	if err != nil {
		return
	}
	anyDup := false
	for _, set := range sets {
		anyDup = or(anyDup, c16HasDuplicateKey(set))
	}
	inKF := knownFinding("C16-duplicate-key-in-multisig-script", anyDup)
	_ = inKF
	verr := checkTransactionSignatures(tx)
	cover("validator-returned")
	if verr != nil {
		return
	}
	cover("accepted")
	hash := tx.Hash()
	for _, set := range sets {
		cnt := c16DistinctValid(set, hash)
		assert(cnt >= set.m, "every-set-has-m-distinct-valid-signers")
	}
	// the payer is one of the signer accounts the validator derived
	found := false
	var p common.Address
	copy(p[:], payer)
	for _, a := range tx.SignedAddr {
		found = or(found, a == p)
	}
	assert(found, "payer-is-a-signer-account")
}

// Harness_C16_many_keys: one multi-signature set with `nkeys` keys (more than 8) and threshold 2: the two
// signatures must come from two DISTINCT keys wherever those keys sit in the list.
func Harness_C16_many_keys() {
	n := param("nkeys")
	raw := []byte{0, byte(types.InvokeNeo)}
	raw = append(raw, make([]byte, 4+8+8)...)
	payer := nondetBytes("payer", 20)
	raw = append(raw, payer...)
	raw = append(raw, 1, nondetU8("code"), 0) // code, attributes
	raw = append(raw, 1)                      // one signature set
	var set c16Set
	set.multi, set.m = true, 2
	var inv []byte
	for j := 0; j < 2; j++ {
		sg := nondetBytes("sig", 4)
		set.sigs = append(set.sigs, sg)
		inv = append(inv, 4)
		inv = append(inv, sg...)
	}
	ver := []byte{byte(0x50 + set.m)}
	for j := 0; j < n; j++ {
		kb := nondetBytes("keyblob", 4)
		set.blobs = append(set.blobs, kb)
		ver = append(ver, 4)
		ver = append(ver, kb...)
	}
	ver = append(ver, byte(0x50+n), 0xae)
	raw = append(raw, byte(len(inv)))
	raw = append(raw, inv...)
	raw = append(raw, byte(len(ver)))
	raw = append(raw, ver...)
	tx, err := types.TransactionFromRawBytes(raw)
	assert(err == nil, "built-transaction-decodes")
	if err != nil {
		return
	}
	inKF := knownFinding("C16-duplicate-key-in-multisig-script", c16HasDuplicateKey(set))
	_ = inKF
	if checkTransactionSignatures(tx) != nil {
		return
	}
	cover("accepted")
	assert(c16DistinctValid(set, tx.Hash()) >= set.m, "every-set-has-m-distinct-valid-signers")
}
