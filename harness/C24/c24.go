package types

import (
	"bytes"

	comm "github.com/ontio/ontology/common"
	"github.com/ontio/ontology/common/config"
	"github.com/ontio/ontology/p2pserver/common"
)

// C24: P2P message decoding never panics and round-trips every message.

type c24Type struct {
	cmd   string
	fixed int // size of the fixed-length part of the payload
}

// message types whose payload codec needs no public-key / signature / transaction decoding
var c24Types = []c24Type{
	{common.PING_TYPE, 8},
	{common.PONG_TYPE, 8},
	{common.VERACK_TYPE, 1},
	{common.GetADDR_TYPE, 0},
	{common.ADDR_TYPE, 8},
	{common.GET_HEADERS_TYPE, 65},
	{common.INV_TYPE, 5},
	{common.GET_DATA_TYPE, 33},
	{common.NOT_FOUND_TYPE, 32},
	{common.GET_BLOCKS_TYPE, 65},
	{common.FINDNODE_TYPE, 20},
	{common.FINDNODE_RESP_TYPE, 26},
	{common.SUBNET_MEMBERS_TYPE, 4},
	{common.VERSION_TYPE, 76},
}

func c24Payload(t c24Type, extra int) []byte {
	// lengths explored: 0, fixed-1, fixed, fixed+1 ... fixed+extra
	k := nondetRange("len", 3+extra)
	n := 0
	switch {
	case k == 0:
		n = 0
	case k == 1:
		n = t.fixed - 1
		if n < 0 {
			n = 0
		}
	default:
		n = t.fixed + k - 2
	}
	return nondetBytes("payload", n)
}

func c24U64(b []byte) uint64 {
	var v uint64
	for i := 0; i < 8; i++ {
		v |= uint64(b[i]) << (8 * uint(i))
	}
	return v
}

// Harness_C24_payloads: for every key-free message type and every payload up to fixed+extra bytes:
// the decoder never panics; an accepted payload re-serializes to exactly the consumed bytes, and that
// re-serialization decodes again to a message with the same serialization.
func Harness_C24_payloads() {
	ti := nondetRange("type", len(c24Types))
	t := c24Types[ti]
	buf := c24Payload(t, param("extra"))
	if t.cmd == common.ADDR_TYPE && len(buf) >= 8 {
		inKF := knownFinding("C24-addr-count-negative-as-int", c24U64(buf) >= 1<<63)
		_ = inKF
	}
	msg := makeEmptyMessage(t.cmd)
	src := comm.NewZeroCopySource(buf)
	err := msg.Deserialization(src)
	cover("decoder-returned")
	if err != nil {
		return
	}
	cover("accepted")
	sink := comm.NewZeroCopySink(nil)
	msg.Serialization(sink)
	out := sink.Bytes()
	consumed := buf[:src.Pos()]
	tolerant := false
	if t.cmd == common.VERSION_TYPE {
		// documented tolerance: an unreadable SoftVersion tail is treated as ""
		s2 := comm.NewZeroCopySource(buf)
		s2.Skip(uint64(t.fixed))
		_, _, irr, eof := s2.NextString()
		tolerant = knownFinding("C24-version-softversion-tail-tolerated", irr || eof)
	}
	if t.cmd == common.FINDNODE_RESP_TYPE {
		s2 := comm.NewZeroCopySource(buf)
		s2.Skip(20)
		_, irrb, _ := s2.NextBool()
		_, _, irrs, _ := s2.NextString()
		tolerant = knownFinding("C24-findnoderesp-irregular-fields-tolerated", irrb || irrs)
	}
	_ = tolerant
	assert(len(out) == len(consumed), "reserialization-length-equals-consumed")
	if len(out) == len(consumed) {
		assert(bytesEq(out, consumed), "reserialization-reproduces-consumed-payload")
	}
	// the re-serialization is a fixpoint
	msg2 := makeEmptyMessage(t.cmd)
	err2 := msg2.Deserialization(comm.NewZeroCopySource(out))
	assert(err2 == nil, "reserialization-decodes")
	if err2 == nil {
		sink2 := comm.NewZeroCopySink(nil)
		msg2.Serialization(sink2)
		assert(len(sink2.Bytes()) == len(out), "fixpoint-length")
		if len(sink2.Bytes()) == len(out) {
			assert(bytesEq(sink2.Bytes(), out), "reserialization-is-a-fixpoint")
		}
	}
}

// Harness_C24_frame: ReadMessage on an arbitrary 24-byte header followed by up to maxpay payload bytes:
// wrong magic, oversized length and checksum mismatch are rejected, the oversized length before any
// allocation; an accepted frame carries exactly `length` payload bytes with the right checksum.
func Harness_C24_frame() {
	config.DefConfig.P2PNode.NetworkMagic = nondetU32("magic")
	hdr := nondetBytes("hdr", common.MSG_HDR_LEN)
	// command: "ping" padded with zeros (type dispatch is covered by Harness_C24_payloads)
	copy(hdr[4:16], []byte{'p', 'i', 'n', 'g', 0, 0, 0, 0, 0, 0, 0, 0})
	n := nondetRange("paylen", param("maxpay")+1)
	pay := nondetBytes("pay", n)
	stream := append(append([]byte{}, hdr...), pay...)
	magic := uint32(hdr[0]) | uint32(hdr[1])<<8 | uint32(hdr[2])<<16 | uint32(hdr[3])<<24
	length := uint32(hdr[16]) | uint32(hdr[17])<<8 | uint32(hdr[18])<<16 | uint32(hdr[19])<<24
	msg, plen, err := ReadMessage(bytes.NewReader(stream))
	cover("readmessage-returned")
	if magic != config.DefConfig.P2PNode.NetworkMagic {
		assert(err != nil, "wrong-magic-rejected")
		return
	}
	if length > common.MAX_PAYLOAD_LEN {
		assert(err != nil, "oversized-length-rejected")
		return
	}
	if err != nil {
		return
	}
	cover("frame-accepted")
	assert(plen == length, "reported-length")
	assert(int(length) <= n, "payload-available")
	sum := common.Checksum(pay[:length])
	assert(sum[0] == hdr[20] && sum[1] == hdr[21] && sum[2] == hdr[22] && sum[3] == hdr[23], "checksum-verified")
	// and the frame writer reproduces the frame
	sink := comm.NewZeroCopySink(nil)
	WriteMessage(sink, msg)
	// the decoder may leave trailing payload bytes unread (not flagged, see DESIGN C24): the rewritten
	// payload must be a prefix of the received one, with the same magic and command
	rl := len(sink.Bytes()) - common.MSG_HDR_LEN
	assert(rl >= 0 && rl <= int(length), "rewritten-payload-not-longer")
	if rl >= 0 && rl <= int(length) {
		out := sink.Bytes()
		assert(bytesEq(out[:16], stream[:16]), "rewritten-magic-and-command-equal")
		assert(bytesEq(out[common.MSG_HDR_LEN:], pay[:rl]), "rewritten-payload-is-prefix-of-received")
	}
}
