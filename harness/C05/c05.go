package ledgerstore

import (
	"bytes"
	"sync"
	"encoding/binary"
	"errors"

	"github.com/ontio/ontology/common"
	"github.com/ontio/ontology/core/payload"
	"github.com/ontio/ontology/core/store"
	scom "github.com/ontio/ontology/core/store/common"
	"github.com/ontio/ontology/core/store/overlaydb"
	"github.com/ontio/ontology/core/types"
	"github.com/ontio/ontology/smartcontract"
	"github.com/ontio/ontology/smartcontract/context"
	"github.com/ontio/ontology/smartcontract/event"
	"github.com/ontio/ontology/smartcontract/service/native/utils"
	"github.com/ontio/ontology/smartcontract/service/neovm"
	"github.com/ontio/ontology/smartcontract/storage"
)

// C05: a failed transaction changes nothing except the fee it is charged.
// The real StateStore.HandleInvokeTransaction / costInvalidGas / tuneGasFeeByHeight / calcGasByCodeLen and
// the real CacheDB / OverlayDB layering run symbolically.  The VM is cut: NewExecuteEngine returns an engine
// that consumes any amount of the gas it is given, writes storage, moves any part of the payer's ONG away
// and then succeeds or fails.  The ONG ledger is a balance record kept in contract storage (the real native
// ONG transfer is claimed under C06): getBalanceFromNative and chargeCostGas are bound to it.

type c05Persist struct{ es []c01Ent }

func (s *c05Persist) Put(key []byte, value []byte) error { return nil }
func (s *c05Persist) Get(key []byte) ([]byte, error) {
	for i := range s.es {
		if bytes.Equal(s.es[i].k, key) {
			return s.es[i].v, nil
		}
	}
	return nil, scom.ErrNotFound
}
func (s *c05Persist) Has(key []byte) (bool, error)                 { _, e := s.Get(key); return e == nil, nil }
func (s *c05Persist) Delete(key []byte) error                      { return nil }
func (s *c05Persist) NewBatch()                                    {}
func (s *c05Persist) BatchPut(key []byte, value []byte)            {}
func (s *c05Persist) BatchDelete(key []byte)                       {}
func (s *c05Persist) BatchCommit() error                           { return nil }
func (s *c05Persist) Close() error                                 { return nil }
func (s *c05Persist) NewIterator(prefix []byte) scom.StoreIterator { return nil }

var (
	c05Payer = common.Address{0x01}
	c05Other = common.Address{0x02}
	c05Slot  = []byte("slot")
)

func c05BalKey(a common.Address) []byte { return append([]byte("bal"), a[0]) }

func c05Bal(cache *storage.CacheDB, a common.Address) uint64 {
	v, err := cache.Get(c05BalKey(a))
	if err != nil || len(v) != 8 {
		return 0
	}
	return binary.LittleEndian.Uint64(v)
}

func c05SetBal(cache *storage.CacheDB, a common.Address, x uint64) {
	var b [8]byte
	binary.LittleEndian.PutUint64(b[:], x)
	cache.Put(c05BalKey(a), b[:])
}

// stubs (spec.json)
func c05GetBalance(config *smartcontract.Config, cache *storage.CacheDB, st store.LedgerStore, a common.Address) (uint64, error) {
	return c05Bal(cache, a), nil
}

func c05Charge(payer common.Address, gas uint64, config *smartcontract.Config, cache *storage.CacheDB, st store.LedgerStore) ([]*event.NotifyEventInfo, error) {
	b := c05Bal(cache, payer)
	if b < gas {
		return nil, errors.New("ong transfer: insufficient balance")
	}
	c05SetBal(cache, payer, b-gas)
	c05SetBal(cache, utils.GovernanceContractAddress, c05Bal(cache, utils.GovernanceContractAddress)+gas)
	return nil, nil
}

type c05Engine struct{ sc *smartcontract.SmartContract }

func (e *c05Engine) Invoke() (interface{}, error) {
	sc := e.sc
	used := nondetU64("vm.gasused")
	assume(used <= sc.Gas)
	sc.Gas -= used
	if nondetBool("vm.writes") {
		sc.CacheDB.Put(c05Slot, []byte{nondetU8("vm.value")})
	}
	if nondetBool("vm.spends") {
		amt := nondetU64("vm.spent")
		b := c05Bal(sc.CacheDB, c05Payer)
		assume(amt <= b)
		c05SetBal(sc.CacheDB, c05Payer, b-amt)
		c05SetBal(sc.CacheDB, c05Other, c05Bal(sc.CacheDB, c05Other)+amt)
	}
	if nondetBool("vm.fails") {
		return nil, errors.New("vm fault")
	}
	return nil, nil
}

func c05NewEngine(sc *smartcontract.SmartContract, code []byte, t types.TransactionType) (context.Engine, error) {
	return &c05Engine{sc}, nil
}

var c05Prices = []uint64{1, 500, 2500}

func Harness_C05_failed_tx_only_pays_fee() {
	payerBal := nondetU64("payer.balance")
	govBal := uint64(nondetU32("gov.balance"))
	otherBal := uint64(nondetU32("other.balance"))
	assume(payerBal <= 1<<62) // total ONG supply is 10^18 < 2^62
	var pb, gb, ob [8]byte
	binary.LittleEndian.PutUint64(pb[:], payerBal)
	binary.LittleEndian.PutUint64(gb[:], govBal)
	binary.LittleEndian.PutUint64(ob[:], otherBal)
	pre := func(k []byte) []byte { return append([]byte{byte(scom.ST_STORAGE)}, k...) }
	persist := &c05Persist{es: []c01Ent{{pre(c05BalKey(c05Payer)), pb[:]}, {pre(c05BalKey(utils.GovernanceContractAddress)), gb[:]}, {pre(c05BalKey(c05Other)), ob[:]}}}
	overlay := overlaydb.NewOverlayDB(persist)
	cache := storage.NewCacheDB(overlay)

	price := c05Prices[nondetRange("gasprice", len(c05Prices))]
	codeLen := nondetRange("codelen", 3) * 1024 // 0, 1 or 2 charged code units
	tx := &types.Transaction{TxType: types.InvokeNeo, GasPrice: price, GasLimit: nondetU64("gaslimit"), Payer: c05Payer,
		Payload: &payload.InvokeCode{Code: make([]byte, codeLen+1)}}
	assume(tx.GasLimit <= 1<<40)
	block := &types.Block{Header: &types.Header{Height: nondetU32("height"), Timestamp: 1}}
	assume(block.Header.Height > 0)
	gasTable := map[string]uint64{neovm.UINT_INVOKE_CODE_LEN_NAME: uint64(nondetU32("codeprice"))}
	notify := &event.ExecuteNotify{State: event.CONTRACT_STATE_FAIL}
	ss := &StateStore{}

	cache.Reset()
	_, err := ss.HandleInvokeTransaction(nil, overlay, gasTable, cache, tx, block, notify)
	cover("c05-handler-returned")
	assert(overlay.Error() == nil, "no-internal-error")
	cache.Reset() // what executeBlock does before the next transaction: uncommitted effects are dropped

	view := storage.NewCacheDB(overlay)
	payerAfter, govAfter, otherAfter := c05Bal(view, c05Payer), c05Bal(view, utils.GovernanceContractAddress), c05Bal(view, c05Other)
	slot, serr := view.Get(c05Slot)
	moved := govAfter - govBal
	assert(govAfter >= govBal, "governance-balance-never-decreases")
	assert(moved <= payerBal, "fee-never-exceeds-payer-balance")
	assert(notify.GasConsumed == moved, "reported-gas-consumed-equals-fee-moved")
	if err != nil {
		cover("c05-failed")
		assert(notify.State == event.CONTRACT_STATE_FAIL, "failed-transaction-reported-as-failed")
		assert(serr == nil && len(slot) == 0, "failed-transaction-storage-writes-discarded")
		assert(otherAfter == otherBal, "failed-transaction-token-moves-discarded")
		assert(payerAfter == payerBal-moved, "failed-transaction-payer-loses-exactly-the-fee")
	} else {
		cover("c05-succeeded")
		assert(payerAfter+otherAfter+govAfter == payerBal+otherBal+govBal, "successful-transaction-conserves-ong")
	}
}

// ---- block level: the real executeBlock loop over two transactions of the same payer ----

var c05TxNo int

type c05BlockEngine struct{ sc *smartcontract.SmartContract }

var c05Spent [2]uint64
var c05Failed [2]bool

func (e *c05BlockEngine) Invoke() (interface{}, error) {
	sc := e.sc
	i := int(sc.Config.Tx.Nonce) // the harness numbers the block's transactions in their nonce field
	used := uint64(0)
	if nondetBool("vm.usesallgas") {
		used = sc.Gas
	}
	sc.Gas -= used
	sc.CacheDB.Put([]byte{'s', byte(i)}, []byte{1}) // every transaction writes its own slot
	if nondetBool("vm.spends") {
		b := c05Bal(sc.CacheDB, c05Payer)
		amt := b // the contract moves the payer's whole balance, or one unit
		if nondetBool("vm.spendsone") && b > 0 {
			amt = 1
		}
		c05SetBalZ(sc.CacheDB, c05Payer, b-amt)
		c05SetBalZ(sc.CacheDB, c05Other, c05Bal(sc.CacheDB, c05Other)+amt)
		c05Spent[i] = amt
	}
	if nondetBool("vm.fails") {
		c05Failed[i] = true
		return nil, errors.New("vm fault")
	}
	return nil, nil
}

// balances the way the native token keeps them: a zero balance is a deleted record
func c05SetBalZ(cache *storage.CacheDB, a common.Address, x uint64) {
	if x == 0 {
		cache.Delete(c05BalKey(a))
		return
	}
	c05SetBal(cache, a, x)
}

func c05ChargeZ(payer common.Address, gas uint64, config *smartcontract.Config, cache *storage.CacheDB, st store.LedgerStore) ([]*event.NotifyEventInfo, error) {
	b := c05Bal(cache, payer)
	if b < gas {
		return nil, errors.New("ong transfer: insufficient balance")
	}
	c05SetBalZ(cache, payer, b-gas)
	c05SetBalZ(cache, utils.GovernanceContractAddress, c05Bal(cache, utils.GovernanceContractAddress)+gas)
	return nil, nil
}

func c05NewBlockEngine(sc *smartcontract.SmartContract, code []byte, t types.TransactionType) (context.Engine, error) {
	return &c05BlockEngine{sc}, nil
}

func c05GasTable(m *sync.Map, f func(k, v interface{}) bool) {
	f(neovm.UINT_INVOKE_CODE_LEN_NAME, uint64(10))
}

func c05NoRefresh(config *smartcontract.Config, cache *storage.CacheDB, st store.LedgerStore) error { return nil }

var c05BlockPrices = []uint64{0, 2500, 1}

var c05Balances = []uint64{0, 50000000, 50000001, 1000000000000, 20000, 100000000}
var c05Limits = []uint64{0, 20000, 40000, 20001}

func Harness_C05_block() {
	payerBal := c05Balances[nondetRange("payer.balance", param("nbalances"))]
	govBal := uint64(nondetRange("gov.balance", param("nother")))
	otherBal := uint64(nondetRange("other.balance", param("nother")))
	pre := func(k []byte) []byte { return append([]byte{byte(scom.ST_STORAGE)}, k...) }
	var es []c01Ent
	put := func(a common.Address, x uint64) {
		if x != 0 {
			var b [8]byte
			binary.LittleEndian.PutUint64(b[:], x)
			es = append(es, c01Ent{pre(c05BalKey(a)), b[:]})
		}
	}
	put(c05Payer, payerBal)
	put(utils.GovernanceContractAddress, govBal)
	put(c05Other, otherBal)
	ls := &LedgerStoreImp{stateStore: &StateStore{store: &c05Persist{es: es}, stateHashCheckHeight: 1 << 30}, stateHashCheckHeight: 1 << 30}
	c05TxNo = 0
	c05Spent = [2]uint64{}
	c05Failed = [2]bool{}
	block := &types.Block{Header: &types.Header{Height: uint32(1 + nondetRange("height", 2)*20000000), Timestamp: 1}}
	for i := 0; i < 2; i++ {
		tx := &types.Transaction{TxType: types.InvokeNeo, GasPrice: c05BlockPrices[nondetRange("gasprice", param("nprices"))],
			GasLimit: c05Limits[nondetRange("gaslimit", param("nlimits"))], Payer: c05Payer, Nonce: uint32(i), Payload: &payload.InvokeCode{Code: []byte{0}}}
		block.Transactions = append(block.Transactions, tx)
	}
	result, err := ls.executeBlock(block)
	assert(err == nil, "block-executes")
	if err != nil {
		return
	}
	cover("c05-block-executed")
	// read the block's write set on top of the persisted balances
	ov := overlaydb.NewOverlayDB(ls.stateStore.store)
	result.WriteSet.ForEach(func(k, v []byte) {
		if len(v) == 0 {
			ov.Delete(k)
		} else {
			ov.Put(k, v)
		}
	})
	view := storage.NewCacheDB(ov)
	payerAfter, govAfter, otherAfter := c05Bal(view, c05Payer), c05Bal(view, utils.GovernanceContractAddress), c05Bal(view, c05Other)
	assert(len(result.Notify) == 2, "one-notification-per-transaction")
	if len(result.Notify) != 2 {
		return
	}
	fees := result.Notify[0].GasConsumed + result.Notify[1].GasConsumed
	assert(result.Notify[0].GasConsumed <= payerBal && result.Notify[1].GasConsumed <= payerBal, "each-fee-within-initial-balance")
	assert(govAfter == govBal+fees, "governance-gains-exactly-the-reported-fees")
	spent := uint64(0)
	for i := 0; i < 2; i++ {
		ok := result.Notify[i].State == event.CONTRACT_STATE_SUCCESS
		if c05Failed[i] {
			assert(!ok, "faulting-transaction-reported-failed")
		}
		slot, serr := view.Get([]byte{'s', byte(i)})
		present := serr == nil && len(slot) != 0
		assert(present == ok, "storage-write-survives-exactly-when-the-transaction-succeeded")
		if ok {
			spent += c05Spent[i]
		}
	}
	assert(otherAfter == otherBal+spent, "token-moves-survive-exactly-for-successful-transactions")
	assert(payerAfter+fees+spent == payerBal && fees <= payerBal && spent <= payerBal, "payer-loses-exactly-fees-and-successful-spending")
}
