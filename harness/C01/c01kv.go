package ledgerstore

import (
	"bytes"

	"github.com/ontio/ontology/common"
	"github.com/ontio/ontology/core/store"
	scom "github.com/ontio/ontology/core/store/common"
	"github.com/ontio/ontology/core/store/leveldbstore"
	"github.com/ontio/ontology/core/store/overlaydb"
	"github.com/ontio/ontology/core/types"
	types2 "github.com/ethereum/go-ethereum/core/types"
	"github.com/ontio/ontology/merkle"
)

// C01, second harness: the cut is one level lower than in c01.go.  The real BlockStore / StateStore /
// EventStore code (key layout, serialisation, merkle trees, current-block records) runs on top of a model
// of LevelDB: a durable key-value map per database handle with an atomic write batch.  A process death
// makes the current and every later BatchCommit/Put fail; a restart drops the batches and every in-memory
// structure and reopens the stores over the durable maps.  A second, never-crashing ledger executes the
// same blocks and is the reference the recovered one is compared with.

type c01Ent struct{ k, v []byte }

type c01DB struct {
	h      *leveldbstore.LevelDBStore
	dur    []c01Ent
	pend   []c01Ent // v == nil: delete
	mortal bool     // subject to the crash schedule (the reference ledger's databases are not)
}

var c01DBs []*c01DB

func c01NewDB(mortal bool) *c01DB {
	d := &c01DB{h: &leveldbstore.LevelDBStore{}, mortal: mortal}
	c01DBs = append(c01DBs, d)
	return d
}

func c01Of(h *leveldbstore.LevelDBStore) *c01DB {
	for _, d := range c01DBs {
		if d.h == h {
			return d
		}
	}
	panic("unknown database handle")
}

func c01Clone(b []byte) []byte { return append([]byte{}, b...) }

func (d *c01DB) get(key []byte) ([]byte, bool) {
	for i := range d.dur {
		if bytes.Equal(d.dur[i].k, key) {
			return d.dur[i].v, true
		}
	}
	return nil, false
}

func (d *c01DB) apply(key, val []byte) {
	for i := range d.dur {
		if bytes.Equal(d.dur[i].k, key) {
			if val == nil {
				d.dur = append(d.dur[:i:i], d.dur[i+1:]...)
			} else {
				d.dur[i].v = val
			}
			return
		}
	}
	if val != nil {
		d.dur = append(d.dur, c01Ent{key, val})
	}
}

func (d *c01DB) alive() bool {
	if !d.mortal {
		return true
	}
	return c01Commit()
}

// ---- stubs for (*leveldbstore.LevelDBStore) (bound by spec.json) ----

func c01LPut(h *leveldbstore.LevelDBStore, key, value []byte) error {
	d := c01Of(h)
	if !d.alive() {
		return errC01Crash
	}
	d.apply(c01Clone(key), c01Clone(value))
	return nil
}
func c01LGet(h *leveldbstore.LevelDBStore, key []byte) ([]byte, error) {
	if v, ok := c01Of(h).get(key); ok {
		return c01Clone(v), nil
	}
	return nil, scom.ErrNotFound
}
func c01LHas(h *leveldbstore.LevelDBStore, key []byte) (bool, error) {
	_, ok := c01Of(h).get(key)
	return ok, nil
}
func c01LDelete(h *leveldbstore.LevelDBStore, key []byte) error {
	d := c01Of(h)
	if !d.alive() {
		return errC01Crash
	}
	d.apply(c01Clone(key), nil)
	return nil
}
func c01LNewBatch(h *leveldbstore.LevelDBStore) { c01Of(h).pend = nil }
func c01LBatchPut(h *leveldbstore.LevelDBStore, key, value []byte) {
	d := c01Of(h)
	v := c01Clone(value)
	if v == nil {
		v = []byte{}
	}
	d.pend = append(d.pend, c01Ent{c01Clone(key), v})
}
func c01LBatchDelete(h *leveldbstore.LevelDBStore, key []byte) {
	d := c01Of(h)
	d.pend = append(d.pend, c01Ent{c01Clone(key), nil})
}
func c01LBatchCommit(h *leveldbstore.LevelDBStore) error {
	d := c01Of(h)
	if !d.alive() {
		return errC01Crash
	}
	for _, e := range d.pend {
		d.apply(e.k, e.v)
	}
	d.pend = nil
	return nil
}
func c01LClose(h *leveldbstore.LevelDBStore) error { return nil }

func c01NoFileStore(name string, treeSize uint32) (merkle.HashStore, error) {
	return nil, errC01Crash // merkle_tree.db is outside the model: the node runs with hash-file persistence disabled
}

func c01RandHeight1(p *overlaydb.MemDB) int { return 1 }

// ---- a ledger over three model databases ----

type c01Node struct {
	blk, st, ev *c01DB
	shc         uint32
	ls          *LedgerStoreImp
}

func c01NewNode(mortal bool, shc uint32) *c01Node {
	return &c01Node{blk: c01NewDB(mortal), st: c01NewDB(mortal), ev: c01NewDB(mortal), shc: shc}
}

// open models NewLedgerStore over existing data directories (everything in memory is rebuilt).
func (n *c01Node) open() error {
	n.blk.pend, n.st.pend, n.ev.pend = nil, nil, nil
	bs := &BlockStore{store: n.blk.h, bloomCache: map[uint32]*types2.Bloom{}}
	ss := &StateStore{store: n.st.h, stateHashCheckHeight: n.shc}
	_, height, err := ss.GetCurrentBlock()
	if err != nil && err != scom.ErrNotFound {
		return err
	}
	if err := ss.init(height); err != nil {
		return err
	}
	n.ls = &LedgerStoreImp{
		headerCache:          make(map[common.Uint256]*types.Header),
		vbftPeerInfoMap:      make(map[uint32]map[string]uint32),
		blockStore:           bs,
		stateStore:           ss,
		eventStore:           &EventStore{store: n.ev.h},
		crossChainStore:      &CrossChainStore{},
		headerIndexCache:     NewHeaderIndexCache(),
		stateHashCheckHeight: n.shc,
	}
	return nil
}

func (n *c01Node) stateHeight() (uint32, bool) {
	_, h, err := n.ls.stateStore.GetCurrentBlock()
	return h, err == nil
}

// executeBlock stand-in: a deterministic write set derived from the block, and the check that a block is
// only ever executed on the state of its parent.
func c01ExecKV(ls *LedgerStoreImp, block *types.Block) (store.ExecuteResult, error) {
	_, cur, err := ls.stateStore.GetCurrentBlock()
	if err == nil {
		assert(block.Header.Height == cur+1, "kv-executes-only-the-block-above-the-durable-state")
	} else {
		assert(block.Header.Height == 0, "kv-first-executed-block-is-genesis")
	}
	ws := overlaydb.NewMemDB(64, 4)
	ws.Put([]byte{0x05, 'b', 'a', 'l'}, block.Header.TransactionsRoot[:8]) // an overwritten "balance"
	ws.Put([]byte{0x05, 'h', byte(block.Header.Height)}, block.Header.TransactionsRoot[8:12])
	var res store.ExecuteResult
	res.WriteSet = ws
	copy(res.Hash[:], block.Header.TransactionsRoot[:])
	res.Hash[31] ^= 0x5a
	return res, nil
}

func c01MkBlock(ref *LedgerStoreImp, height uint32, txRoot common.Uint256, prev common.Uint256) *types.Block {
	hdr := &types.Header{Height: height, TransactionsRoot: txRoot, PrevBlockHash: prev, Timestamp: 100 + height}
	if height > 0 {
		hdr.BlockRoot = ref.GetBlockRootWithNewTxRoots(height, []common.Uint256{txRoot})
	}
	return &types.Block{Header: hdr}
}

func c01SameDB(a, b *c01DB, label string) {
	assert(len(a.dur) == len(b.dur), label+"-same-number-of-keys")
	for _, e := range a.dur {
		v, ok := b.get(e.k)
		assert(ok, label+"-same-keys")
		if ok {
			assert(len(v) == len(e.v) && (len(v) != len(e.v) || bytesEq(v, e.v)), label+"-same-values")
		}
	}
}

func Harness_C01_kv() {
	c01DBs = nil
	c01 = &c01Model{left: 100}
	h := uint32(param("h"))
	shc := uint32(nondetRange("statehashheight", int(h)+3)) // below, at and above the crash height
	node := c01NewNode(true, shc)
	ref := c01NewNode(false, shc)
	assert(node.open() == nil && ref.open() == nil, "kv-fresh-open")
	var prev common.Uint256
	var blocks []*types.Block
	var roots []common.Uint256
	for i := uint32(0); i <= h+2; i++ {
		var r common.Uint256
		copy(r[:], nondetBytes("txroot", 32))
		roots = append(roots, r)
	}
	// common history 0..h on both nodes
	for i := uint32(0); i <= h; i++ {
		b := c01MkBlock(ref.ls, i, roots[i], prev)
		blocks = append(blocks, b)
		prev = b.Hash()
		assert(ref.ls.saveBlock(b, nil, common.Uint256{}) == nil, "kv-reference-commits")
		assert(node.ls.saveBlock(b, nil, common.Uint256{}) == nil, "kv-node-commits-before-the-crash")
	}
	// snapshot of the old height
	oldSt := &c01DB{dur: append([]c01Ent{}, node.st.dur...)}
	oldBlockRoot := ref.ls.stateStore.GetBlockRootWithNewTxRoots(nil)
	// block h+1: the reference commits it, the node dies at a symbolic point while committing it
	next := c01MkBlock(ref.ls, h+1, roots[h+1], prev)
	assert(ref.ls.saveBlock(next, nil, common.Uint256{}) == nil, "kv-reference-commits-next")
	c01.left = int(nondetU8("crash0"))
	assume(c01.left <= 3)
	if c01.left == 3 {
		c01.left = 100
	}
	node.ls.saveBlock(next, nil, common.Uint256{})
	if c01.crashed && node.blk.dur != nil {
		cover("kv-process-died-during-commit")
	}
	// restarts, possibly dying again inside recovery
	crashes := param("crashes")
	for k := 0; k < crashes; k++ {
		c01.crashed = false
		c01.left = int(nondetU8("crashR"))
		assume(c01.left <= 2)
		if c01.left == 2 {
			c01.left = 100
		}
		if node.open() == nil {
			node.ls.init()
		}
	}
	c01.crashed = false
	c01.left = 100
	assert(node.open() == nil, "kv-reopen-succeeds")
	assert(node.ls.init() == nil, "kv-recovery-succeeds")
	top := node.ls.GetCurrentBlockHeight()
	assert(top == h || top == h+1, "kv-height-is-old-or-new")
	sh, ok := node.stateHeight()
	assert(ok && sh == top, "kv-state-store-at-block-height")
	_, eh, eerr := node.ls.eventStore.GetCurrentBlock()
	assert(eerr == nil && eh == top, "kv-event-store-at-block-height")
	if top == h+1 {
		c01SameDB(ref.st, node.st, "kv-state-equals-uncrashed-node")
		c01SameDB(node.st, ref.st, "kv-state-equals-uncrashed-node")
		assert(node.ls.stateStore.GetBlockRootWithNewTxRoots(nil) == ref.ls.stateStore.GetBlockRootWithNewTxRoots(nil), "kv-block-merkle-root-equals-uncrashed-node")
		a, ea := node.ls.GetStateMerkleRoot(top)
		b, eb := ref.ls.GetStateMerkleRoot(top)
		assert((ea == nil) == (eb == nil) && a == b, "kv-state-merkle-root-equals-uncrashed-node")
		assert(node.ls.GetCurrentBlockHash() == next.Hash(), "kv-current-hash-is-the-new-block")
	} else {
		c01SameDB(oldSt, node.st, "kv-state-equals-old-height")
		c01SameDB(node.st, oldSt, "kv-state-equals-old-height")
		assert(node.ls.stateStore.GetBlockRootWithNewTxRoots(nil) == oldBlockRoot, "kv-block-merkle-root-equals-old-height")
		// the interrupted block is accepted again
		assert(node.ls.saveBlock(next, nil, common.Uint256{}) == nil, "kv-interrupted-block-accepted-again")
		c01SameDB(ref.st, node.st, "kv-state-after-retry-equals-uncrashed-node")
	}
	// both accept the following block alike
	after := c01MkBlock(ref.ls, h+2, roots[h+2], next.Hash())
	assert(ref.ls.saveBlock(after, nil, common.Uint256{}) == nil, "kv-reference-commits-following")
	assert(node.ls.saveBlock(after, nil, common.Uint256{}) == nil, "kv-following-block-accepted")
	assert(node.ls.GetCurrentBlockHeight() == h+2, "kv-height-after-following-block")
	c01SameDB(ref.st, node.st, "kv-state-after-following-block-equals-uncrashed-node")
	assert(node.ls.stateStore.GetBlockRootWithNewTxRoots(nil) == ref.ls.stateStore.GetBlockRootWithNewTxRoots(nil), "kv-block-root-after-following-block")
}
