package ledgerstore

// Native demonstration of C01-recover-replays-wrong-block on a real LevelDB ledger in a temp directory:
// the process "dies" after the block store and event store batches of block 1 are committed and before the
// state store batch is; on reopen recoverStore must re-apply block 1 so that state height == block height.

import (
	"encoding/json"
	"fmt"
	"os"
	"testing"

	"github.com/ontio/ontology-crypto/keypair"
	"github.com/ontio/ontology/account"
	"github.com/ontio/ontology/common"
	"github.com/ontio/ontology/common/config"
	vconfig "github.com/ontio/ontology/consensus/vbft/config"
	"github.com/ontio/ontology/core/genesis"
	"github.com/ontio/ontology/core/types"
)

func TestC01CrashBetweenBlockAndStateCommit(t *testing.T) {
	dir, err := os.MkdirTemp("", "verif-c01-")
	if err != nil {
		t.Fatal(err)
	}
	defer os.RemoveAll(dir)
	defer os.RemoveAll("ActorLog")
	acct := account.NewAccount("")
	bookkeepers := []keypair.PublicKey{acct.PublicKey}
	gen, err := genesis.BuildGenesisBlock(bookkeepers, config.DefConfig.Genesis)
	if err != nil {
		t.Fatal(err)
	}
	ls, err := NewLedgerStore(dir, 0)
	if err != nil {
		t.Fatal(err)
	}
	if err := ls.InitLedgerStoreWithGenesisBlock(gen, bookkeepers); err != nil {
		t.Fatal(err)
	}
	hdr := &types.Header{Version: 0, PrevBlockHash: gen.Hash(), Timestamp: gen.Header.Timestamp + 1, Height: 1,
		ConsensusData: 1, NextBookkeeper: gen.Header.NextBookkeeper}
	hdr.ConsensusPayload, _ = json.Marshal(&vconfig.VbftBlockInfo{LastConfigBlockNum: 0})
	hdr.BlockRoot = ls.GetBlockRootWithNewTxRoots(1, []common.Uint256{hdr.TransactionsRoot})
	blk := &types.Block{Header: hdr}
	result, err := ls.executeBlock(blk)
	if err != nil {
		t.Fatal(err)
	}
	// submitBlock up to (and including) the block-store and event-store commits
	ls.blockStore.NewBatch()
	ls.stateStore.NewBatch()
	ls.eventStore.NewBatch()
	if err := ls.saveBlockToBlockStore(blk, result.Bloom); err != nil {
		t.Fatal(err)
	}
	if err := ls.saveBlockToStateStore(blk, result); err != nil {
		t.Fatal(err)
	}
	ls.saveBlockToEventStore(blk)
	if err := ls.blockStore.CommitTo(); err != nil {
		t.Fatal(err)
	}
	if err := ls.eventStore.CommitTo(); err != nil {
		t.Fatal(err)
	}
	// --- crash: the state-store batch is never committed ---
	ls.blockStore.Close()
	ls.eventStore.Close()
	ls.crossChainStore.Close()
	ls.stateStore.Close()

	ls2, err := NewLedgerStore(dir, 0)
	if err != nil {
		t.Fatal(err)
	}
	rerr := ls2.InitLedgerStoreWithGenesisBlock(gen, bookkeepers)
	_, stateHeight, _ := ls2.stateStore.GetCurrentBlock()
	blockHeight := ls2.GetCurrentBlockHeight()
	ls2.Close()
	if rerr != nil || stateHeight != blockHeight {
		fmt.Printf("VERIF-REPLAY: ASSERT-FAILED recovered-state-height-equals-block-height (reopen err=%v, block height %d, state height %d)\n", rerr, blockHeight, stateHeight)
		return
	}
	// a second restart must also succeed (merkle tree size consistent with the height)
	ls3, err := NewLedgerStore(dir, 0)
	if err != nil {
		fmt.Printf("VERIF-REPLAY: ASSERT-FAILED second-restart-succeeds (%v)\n", err)
		return
	}
	rerr = ls3.InitLedgerStoreWithGenesisBlock(gen, bookkeepers)
	ls3.Close()
	if rerr != nil {
		fmt.Printf("VERIF-REPLAY: ASSERT-FAILED second-restart-succeeds (%v)\n", rerr)
		return
	}
	fmt.Println("VERIF-REPLAY: OK recovered to height", blockHeight)
}
