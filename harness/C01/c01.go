package ledgerstore

import (
	"errors"

	"github.com/ontio/ontology/common"
	"github.com/ontio/ontology/core/store"
	scom "github.com/ontio/ontology/core/store/common"
	"github.com/ontio/ontology/core/types"
	types3 "github.com/ethereum/go-ethereum/core/types"
)

// C01: crash recovery of the ledger store.
//
// The real LedgerStoreImp.submitBlock / saveBlock / init / loadCurrentBlock / loadHeaderIndexList /
// recoverStore / saveBlockToBlockStore / saveBlockToStateStore / saveBlockToEventStore and the real
// HeaderIndexCache run symbolically.  The three LevelDB-backed stores are replaced, at the level of
// their "current block" methods, by a durable-register model: every store has a durable height and a
// pending (batch) height; CommitTo makes the pending height durable unless the process has died.  The
// point at which the process dies is a symbolic variable, so the solver covers every crash point
// between the three commits (and again inside recovery); executeBlock is replaced by an observer that
// records which heights are executed against the state.

type c01Model struct {
	blkDur, blkPend uint32
	evtDur, evtPend uint32
	stDur, stPend   uint32
	mkDur, mkPend   uint32 // size of the block merkle tree saved in the state batch
	mkMem           uint32 // size of the in-memory tree
	left            int    // commits left before the process dies (>= 100: never)
	crashed         bool
	execs           int
}

var c01 *c01Model

var errC01Crash = errors.New("process died")

func c01Hash(h uint32) common.Uint256 {
	var u common.Uint256
	u[0] = byte(h)
	u[1] = byte(h >> 8)
	u[2] = byte(h >> 16)
	u[3] = byte(h >> 24)
	u[31] = 0xC1
	return u
}

func c01HeightOf(u common.Uint256) uint32 {
	return uint32(u[0]) | uint32(u[1])<<8 | uint32(u[2])<<16 | uint32(u[3])<<24
}

var c01Root = common.Uint256{7}

func c01Block(h uint32) *types.Block {
	return &types.Block{Header: &types.Header{Height: h, BlockRoot: c01Root}}
}

// ---- stubs (bound by spec.json) ----

func c01BlockHash(b *types.Block) common.Uint256 { return c01Hash(b.Header.Height) }

func c01Commit() bool {
	if c01.crashed {
		return false
	}
	if c01.left == 0 {
		c01.crashed = true
		return false
	}
	c01.left--
	return true
}

func c01BlkNewBatch(s *BlockStore) { c01.blkPend = c01.blkDur }
func c01BlkSaveCurrent(s *BlockStore, height uint32, hash common.Uint256) error {
	assert(hash == c01Hash(height), "block-store-current-hash-matches-height")
	c01.blkPend = height
	return nil
}
func c01BlkSaveHash(s *BlockStore, height uint32, hash common.Uint256)  {}
func c01BlkSaveBlock(s *BlockStore, b *types.Block) error               { return nil }
func c01BlkSaveBloom(s *BlockStore, height uint32, bloom types3.Bloom)  {}
func c01BlkLoadBloomBits(s *BlockStore) error                           { return nil }
func c01BlkCommit(s *BlockStore) error {
	if !c01Commit() {
		return errC01Crash
	}
	c01.blkDur = c01.blkPend
	return nil
}
func c01BlkGetCurrent(s *BlockStore) (common.Uint256, uint32, error) {
	return c01Hash(c01.blkDur), c01.blkDur, nil
}
func c01BlkGetHash(s *BlockStore, height uint32) (common.Uint256, error) {
	if height > c01.blkDur {
		return common.Uint256{}, scom.ErrNotFound
	}
	return c01Hash(height), nil
}
func c01BlkGetBlock(s *BlockStore, hash common.Uint256) (*types.Block, error) {
	h := c01HeightOf(hash)
	if hash != c01Hash(h) || h > c01.blkDur {
		return nil, scom.ErrNotFound
	}
	return c01Block(h), nil
}

func c01CrossSave(s *CrossChainStore, m *types.CrossChainMsg) error { return nil }

func c01StNewBatch(s *StateStore) {
	c01.stPend = c01.stDur
	c01.mkPend = c01.mkDur
}
func c01StAddStateRoot(s *StateStore, h uint32, w common.Uint256) error { return nil }
func c01StAddBlockRoot(s *StateStore, txRoot common.Uint256) error {
	c01.mkMem++
	c01.mkPend = c01.mkMem
	return nil
}
func c01StSaveCurrent(s *StateStore, height uint32, hash common.Uint256) error {
	assert(hash == c01Hash(height), "state-store-current-hash-matches-height")
	c01.stPend = height
	return nil
}
func c01StSaveCross(s *StateStore, height uint32, cs []common.Uint256) error { return nil }
func c01StCommit(s *StateStore) error {
	if !c01Commit() {
		return errC01Crash
	}
	c01.stDur = c01.stPend
	c01.mkDur = c01.mkPend
	return nil
}
func c01StGetCurrent(s *StateStore) (common.Uint256, uint32, error) {
	return c01Hash(c01.stDur), c01.stDur, nil
}
func c01StBlockRoot(s *StateStore, txRoots []common.Uint256) common.Uint256 { return c01Root }

func c01EvNewBatch(s *EventStore)                                   { c01.evtPend = c01.evtDur }
func c01EvSaveByBlock(s *EventStore, h uint32, txs []common.Uint256) {}
func c01EvSaveCurrent(s *EventStore, height uint32, hash common.Uint256) {
	c01.evtPend = height
}
func c01EvGetCurrent(s *EventStore) (common.Uint256, uint32, error) {
	return c01Hash(c01.evtDur), c01.evtDur, nil
}
func c01EvCommit(s *EventStore) error {
	if !c01Commit() {
		return errC01Crash
	}
	c01.evtDur = c01.evtPend
	return nil
}

// executeBlock observer: an uncrashed node executes every block exactly once, on the state of its parent.
func c01Exec(ls *LedgerStoreImp, block *types.Block) (store.ExecuteResult, error) {
	assert(block.Header.Height == c01.stDur+1, "executes-only-the-block-above-the-durable-state")
	c01.execs++
	return store.ExecuteResult{}, nil
}

func c01Lock(ls *LedgerStoreImp)   {}
func c01Unlock(ls *LedgerStoreImp) {}

// ---- harness ----

func c01NewLedger() *LedgerStoreImp {
	return &LedgerStoreImp{
		headerCache:      make(map[common.Uint256]*types.Header),
		vbftPeerInfoMap:  make(map[uint32]map[string]uint32),
		blockStore:       &BlockStore{},
		stateStore:       &StateStore{},
		eventStore:       &EventStore{},
		crossChainStore:  &CrossChainStore{},
		headerIndexCache: NewHeaderIndexCache(),
	}
}

// restart models process restart: batches and in-memory state are lost, durable registers stay.
func c01Restart() *LedgerStoreImp {
	c01.crashed = false
	c01.blkPend, c01.evtPend, c01.stPend, c01.mkPend = c01.blkDur, c01.evtDur, c01.stDur, c01.mkDur
	// StateStore.init: the saved tree size must equal state height + 1
	assert(c01.mkDur == c01.stDur+1, "merkle-tree-size-equals-state-height-plus-one")
	c01.mkMem = c01.mkDur
	return c01NewLedger()
}

func c01Consistent(h uint32) bool {
	return c01.blkDur == h && c01.evtDur == h && c01.stDur == h && c01.mkDur == h+1
}

func Harness_C01_crash_recover() {
	maxh := uint32(param("maxh"))
	crashes := int(param("crashes"))
	h := nondetU32("h")
	assume(h <= maxh)
	c01 = &c01Model{blkDur: h, evtDur: h, stDur: h, mkDur: h + 1, left: 100}

	// a cleanly stopped node opens without replaying anything
	ls := c01Restart()
	err := ls.init()
	assert(err == nil, "clean-open-succeeds")
	assert(c01.execs == 0 && c01Consistent(h), "clean-open-replays-nothing")
	assert(ls.currBlockHeight == h, "clean-open-height")

	// commit block h+1; the process dies before commit number `left` (3 = survives)
	c01.left = int(nondetU8("crash0"))
	assume(c01.left <= 3)
	if c01.left == 3 {
		c01.left = 100
	}
	err = ls.saveBlock(c01Block(h+1), nil, common.Uint256{})
	if c01.left >= 50 {
		assert(err == nil && c01Consistent(h+1) && ls.currBlockHeight == h+1, "uncrashed-commit-advances-all-stores")
	}
	if c01.crashed && c01.blkDur == h+1 && c01.stDur == h {
		cover("crash-between-block-and-state-commit")
	}

	// restart, possibly dying again inside recovery
	for k := 0; k < crashes; k++ {
		ls = c01Restart()
		c01.left = int(nondetU8("crashR"))
		assume(c01.left <= 2)
		if c01.left == 2 {
			c01.left = 100
		}
		ls.init()
	}
	ls = c01Restart()
	c01.left = 100
	e1, s1 := c01.execs, c01.stDur
	err = ls.init()
	assert(err == nil, "recovery-open-succeeds")
	top := c01.blkDur
	assert(top == h || top == h+1, "height-is-old-or-new")
	assert(c01Consistent(top), "all-stores-at-block-height-after-recovery")
	assert(ls.currBlockHeight == top && ls.currBlockHash == c01Hash(top), "ledger-current-block-after-recovery")
	assert(ls.headerIndexCache.getLastIndex() == top && ls.getHeaderIndex(top) == c01Hash(top), "header-index-after-recovery")
	assert(uint32(c01.execs-e1) == top-s1, "recovery-executes-each-missing-block-once")

	// and it accepts the following block like an uncrashed node
	e0 := c01.execs
	err = ls.saveBlock(c01Block(top+1), nil, common.Uint256{})
	assert(err == nil && c01Consistent(top+1) && ls.currBlockHeight == top+1 && c01.execs == e0+1, "next-block-accepted-after-recovery")
}
