package header_sync

import (
	"github.com/ontio/ontology-crypto/keypair"
	vconfig "github.com/ontio/ontology/consensus/vbft/config"
	s "github.com/ontio/ontology-crypto/signature"
	"github.com/ontio/ontology/smartcontract/service/native"
	ccom "github.com/ontio/ontology/smartcontract/service/native/cross_chain/common"
)

// C33: the header-sync contract accepts a side-chain header only with valid signatures of at least two
// thirds of the DISTINCT consensus peers of that chain.
// Keys and signatures are ideal (engine/sym/crypto.go); the stored peer set is a harness-built record.

var c33Peers *ConsensusPeers

// stubs for the two storage lookups (see spec.json)
func c33FindKeyHeight(native *native.NativeService, height uint32, chainID uint64) (uint32, error) {
	return 0, nil
}
func c33GetPeers(native *native.NativeService, chainID uint64, height uint32) (*ConsensusPeers, error) {
	return c33Peers, nil
}

func c33Key(tag string) keypair.PublicKey {
	k, err := keypair.DeserializePublicKey(nondetBytes(tag, 4))
	assume(err == nil)
	return k
}

func Harness_C33_distinct_two_thirds() {
	n := 1 + nondetRange("npeers", param("maxpeers"))
	peers := make([]keypair.PublicKey, 0, n)
	c33Peers = &ConsensusPeers{ChainID: 1, PeerMap: map[string]*Peer{}}
	for i := 0; i < n; i++ {
		k := c33Key("peer")
		for _, o := range peers {
			assume(!keypair.ComparePublicKey(o, k))
		}
		peers = append(peers, k)
		id := vconfig.PubkeyID(k)
		c33Peers.PeerMap[id] = &Peer{Index: uint32(i + 1), PeerPubkey: id}
	}
	outsider := c33Key("outsider")
	for _, o := range peers {
		assume(!keypair.ComparePublicKey(o, outsider))
	}
	// header with an arbitrary bookkeeper list (members in any multiplicity, or the outsider)
	nb := nondetRange("nbook", param("maxbook")+1)
	hdr := &ccom.Header{ChainID: 1, Height: nondetU32("height")}
	dup := false
	var used []int
	for i := 0; i < nb; i++ {
		c := nondetRange("book", n+1)
		if c == n {
			hdr.Bookkeepers = append(hdr.Bookkeepers, outsider)
			continue
		}
		for _, u := range used {
			if u == c {
				dup = true
			}
		}
		used = append(used, c)
		hdr.Bookkeepers = append(hdr.Bookkeepers, peers[c])
	}
	ns := nondetRange("nsig", param("maxbook")+1)
	for i := 0; i < ns; i++ {
		hdr.SigData = append(hdr.SigData, nondetBytes("sig", 4))
	}
	inKF := knownFinding("C33-duplicate-bookkeepers-counted", dup)
	_ = inKF
	err := VerifyHeader(nil, hdr)
	cover("verifyheader-returned")
	if err != nil {
		return
	}
	cover("accepted")
	// ghost count: distinct member peers that have at least one verifying signature over the header hash
	hash := hdr.Hash()
	var sigs []*s.Signature
	for _, blob := range hdr.SigData {
		if so, e := s.Deserialize(blob); e == nil {
			sigs = append(sigs, so)
		}
	}
	count := 0
	for _, k := range peers {
		has := false
		for _, so := range sigs {
			has = or(has, s.Verify(k, hash[:], so))
		}
		count += iteInt(has, 1, 0)
	}
	assert(count*3 >= n*2, "accepted-header-has-two-thirds-distinct-valid-signers")
}
