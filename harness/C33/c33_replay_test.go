package header_sync

// Native demonstration (real keys, real signatures, real storage) of the known finding
// C33-duplicate-bookkeepers-counted: a header that lists one consensus peer twice, signed twice by that
// single peer, is accepted although only 1 of 3 peers (< 2/3) signed it.

import (
	"fmt"
	"testing"

	"github.com/ontio/ontology-crypto/keypair"
	"github.com/ontio/ontology/account"
	vconfig "github.com/ontio/ontology/consensus/vbft/config"
	"github.com/ontio/ontology/core/signature"
	"github.com/ontio/ontology/core/store/leveldbstore"
	"github.com/ontio/ontology/core/store/overlaydb"
	"github.com/ontio/ontology/smartcontract/service/native"
	ccom "github.com/ontio/ontology/smartcontract/service/native/cross_chain/common"
	"github.com/ontio/ontology/smartcontract/storage"
)

func TestC33DuplicateBookkeepers(t *testing.T) {
	a, b, c := account.NewAccount(""), account.NewAccount(""), account.NewAccount("")
	ns := &native.NativeService{CacheDB: storage.NewCacheDB(overlaydb.NewOverlayDB(leveldbstore.NewMemLevelDBStore()))}
	peers := &ConsensusPeers{ChainID: 1, Height: 0, PeerMap: map[string]*Peer{}}
	for i, acc := range []*account.Account{a, b, c} {
		id := vconfig.PubkeyID(acc.PublicKey)
		peers.PeerMap[id] = &Peer{Index: uint32(i + 1), PeerPubkey: id}
	}
	if err := putConsensusPeers(ns, peers); err != nil {
		t.Fatal(err)
	}
	hdr := &ccom.Header{ChainID: 1, Height: 5, Bookkeepers: []keypair.PublicKey{a.PublicKey, a.PublicKey}}
	hash := hdr.Hash()
	sig, err := signature.Sign(a, hash[:])
	if err != nil {
		t.Fatal(err)
	}
	hdr.SigData = [][]byte{sig, sig}
	err = VerifyHeader(ns, hdr)
	if err == nil {
		fmt.Println("VERIF-REPLAY: ASSERT-FAILED accepted-header-has-two-thirds-distinct-valid-signers (1 distinct signer of 3 peers accepted)")
	} else {
		fmt.Println("VERIF-REPLAY: OK rejected:", err)
	}
}
