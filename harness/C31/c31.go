package vbft

import "math"

// C31: commit consensus is declared only with a verifiable quorum of N-(N-1)/3 distinct signers for the
// proposal. The committer's own signature is checked when the message is received (blockCommitMsg.Verify);
// the endorser signatures CARRIED INSIDE a commit message are not (service.go: "TODO: verify msg"), so each
// carried signature has a ghost bit "verifies for (endorser, proposal)".

type c31Claim struct {
	idx      uint32
	proposer uint32
	valid    bool
}

func c31Build(N, nmsgs, maxEnd int) ([]*blockCommitMsg, []c31Claim, bool) {
	var msgs []*blockCommitMsg
	var claims []c31Claim
	anyForged := false
	for i := 0; i < nmsgs; i++ {
		committer := nondetU32("committer")
		assume(committer >= 1 && committer <= uint32(N))
		for _, m := range msgs {
			assume(m.Committer != committer) // one commit per committer (newBlockCommitment enforces it)
		}
		proposer := nondetU32("proposer")
		assume(proposer >= 1 && proposer <= 2) // two competing proposals
		m := &blockCommitMsg{Committer: committer, BlockProposer: proposer, CommitForEmpty: nondetBool("forEmpty"),
			EndorsersSig: map[uint32][]byte{}}
		claims = append(claims, c31Claim{committer, proposer, true})
		ne := nondetRange("nendorsers", maxEnd+1)
		for j := 0; j < ne; j++ {
			e := nondetU32("endorser")
			assume(e >= 1 && e <= uint32(N))
			valid := nondetBool("sigvalid")
			m.EndorsersSig[e] = []byte{nondetU8("sigbyte")}
			claims = append(claims, c31Claim{e, proposer, valid})
			anyForged = or(anyForged, !valid)
		}
		msgs = append(msgs, m)
	}
	return msgs, claims, anyForged
}

// distinct peers with a verifiable signature for proposal p (the proposer signs its own proposal)
func c31Verifiable(claims []c31Claim, p uint32) int {
	count := 0
	proposerCounted := false
	for j, c := range claims {
		ok := and(c.proposer == p, c.valid)
		first := ok
		for l := 0; l < j; l++ {
			first = and(first, !and(and(claims[l].proposer == p, claims[l].valid), claims[l].idx == c.idx))
		}
		count += iteInt(first, 1, 0)
		proposerCounted = or(proposerCounted, and(ok, c.idx == p))
	}
	return count + iteInt(proposerCounted, 0, 1)
}

func c31IsEndorser(self *Server, blockNum uint32, peerIdx uint32) bool { return true }

// Harness_C31_pool: the same claim one level up: commit messages enter the real BlockPool.newBlockCommitment
// (with its per-endorser duplicate filtering) and commitDone decides, including its signature-count fallback.
func Harness_C31_pool() {
	N := param("Nmin") + nondetRange("N", param("Nmax")-param("Nmin")+1)
	C := (N - 1) / 3
	msgs, claims, _ := c31Build(N, 1+nondetRange("nmsgs", param("maxmsgs")), param("maxendorsers"))
	pool := &BlockPool{candidateBlocks: map[uint32]*CandidateInfo{}, server: &Server{}}
	// endorsement messages received directly from endorsers
	ne := nondetRange("nendorsemsgs", param("maxendorsemsgs")+1)
	for i := 0; i < ne; i++ {
		e := nondetU32("endorsemsg.endorser")
		assume(e >= 1 && e <= uint32(N))
		pr := nondetU32("endorsemsg.proposer")
		assume(pr >= 1 && pr <= 2)
		pool.newBlockEndorsement(&blockEndorseMsg{Endorser: e, EndorsedProposer: pr, BlockNum: 7,
			EndorseForEmpty: nondetBool("endorsemsg.forEmpty"), EndorserSig: []byte{nondetU8("endorsemsg.sig")}})
		claims = append(claims, c31Claim{e, pr, true})
	}
	for _, m := range msgs {
		m.BlockNum = 7
		m.CommitterSig = []byte{nondetU8("csig")}
		err := pool.newBlockCommitment(m)
		assert(err == nil, "pool-accepts-first-commit-of-a-committer")
	}
	p, _, done := pool.commitDone(7, uint32(C), uint32(N))
	cover("pool-returned")
	if !done {
		return
	}
	cover("pool-consensus-reported")
	selfCount := false
	for i := range claims {
		claims[i].valid = true // distinctness only: forged carried signatures are the listed finding of the other harness
		selfCount = or(selfCount, and(claims[i].proposer == p, claims[i].idx == p))
	}
	kf2 := knownFinding("C31-proposer-counted-twice", selfCount)
	_ = kf2
	need := N - (N-1)/3
	assert(c31Verifiable(claims, p) >= need, "pool-commit-has-quorum-of-distinct-signers")
}

func Harness_C31_commit_consensus() {
	N := param("Nmin") + nondetRange("N", param("Nmax")-param("Nmin")+1)
	C := (N - 1) / 3
	msgs, claims, anyForged := c31Build(N, 1+nondetRange("nmsgs", param("maxmsgs")), param("maxendorsers"))
	p, _ := getCommitConsensus(msgs, C, N)
	cover("returned")
	if p == math.MaxUint32 {
		return
	}
	cover("consensus-reported")
	selfCount := false
	for _, c := range claims {
		selfCount = or(selfCount, and(c.proposer == p, c.idx == p))
	}
	kf1 := knownFinding("C31-carried-endorser-signatures-unverified", anyForged)
	if !kf1 {
		kf2 := knownFinding("C31-proposer-counted-twice", selfCount)
		_ = kf2
	}
	need := N - (N-1)/3
	assert(c31Verifiable(claims, p) >= need, "commit-consensus-has-verifiable-quorum")
}
