package storage

import (
	"math/big"

	"github.com/ethereum/go-ethereum/common"
	comm "github.com/ontio/ontology/common"
	"github.com/ontio/ontology/core/store/overlaydb"
	"github.com/ontio/ontology/core/types"
)

// C08: after RevertToSnapshot every observable of the EVM state reads as when the snapshot was taken.

// c08Balance is a storage-backed ONG balance model (one storage entry per address, so that it is
// subject to the same snapshot/revert mechanism as the real ong.OngBalanceHandle's storage items).
type c08Balance struct{}

func c08BalKey(addr comm.Address) []byte { return append([]byte("bal:"), addr[:]...) }

func (c08Balance) GetBalance(cache *CacheDB, addr comm.Address) (*big.Int, error) {
	v, err := cache.Get(c08BalKey(addr))
	if err != nil {
		return nil, err
	}
	if len(v) == 0 {
		return big.NewInt(0), nil
	}
	return big.NewInt(int64(v[0])), nil
}
func (c08Balance) SetBalance(cache *CacheDB, addr comm.Address, val *big.Int) error {
	if val.Sign() == 0 {
		cache.Delete(c08BalKey(addr))
		return nil
	}
	cache.Put(c08BalKey(addr), []byte{byte(val.Uint64())})
	return nil
}
func (h c08Balance) AddBalance(cache *CacheDB, addr comm.Address, val *big.Int) error {
	b, _ := h.GetBalance(cache, addr)
	return h.SetBalance(cache, addr, new(big.Int).Add(b, val))
}
func (h c08Balance) SubBalance(cache *CacheDB, addr comm.Address, val *big.Int) error {
	b, _ := h.GetBalance(cache, addr)
	return h.SetBalance(cache, addr, new(big.Int).Sub(b, val))
}

type c08Obs struct {
	state    [2][2]common.Hash
	nonce    [2]uint64
	codeHash [2]common.Hash
	codeLen  [2]int
	balance  [2]uint64
	suicided [2]bool
	nlogs    int
	logTags  [4]byte
	refund   uint64
}

var c08Addrs = [2]common.Address{{0xA1}, {0xB2}}
var c08Slots = [2]common.Hash{{0x01}, {0x02}}

func c08Observe(db *StateDB) c08Obs {
	var o c08Obs
	for a := 0; a < 2; a++ {
		for s := 0; s < 2; s++ {
			o.state[a][s] = db.GetState(c08Addrs[a], c08Slots[s])
		}
		o.nonce[a] = db.GetNonce(c08Addrs[a])
		o.codeHash[a] = db.GetCodeHash(c08Addrs[a])
		o.codeLen[a] = len(db.GetCode(c08Addrs[a]))
		o.balance[a] = db.GetBalance(c08Addrs[a]).Uint64()
		o.suicided[a] = db.HasSuicided(c08Addrs[a])
	}
	logs := db.GetLogs()
	o.nlogs = len(logs)
	for i := 0; i < len(logs) && i < 4; i++ {
		o.logTags[i] = logs[i].Data[0]
	}
	o.refund = db.GetRefund()
	return o
}

// Harness_C08_snapshot_revert: a symbolic program of mutators and nested Snapshot / RevertToSnapshot /
// DiscardSnapshot calls; after every revert all observables equal the ghost copy taken at the snapshot.
func Harness_C08_snapshot_revert() {
	st := &c04Store{}
	cache := NewCacheDB(overlaydb.NewOverlayDB(st))
	db := NewStateDB(cache, common.Hash{}, common.Hash{}, c08Balance{})
	var ghosts []c08Obs // ghost[i] = observation when snapshot i was taken
	steps := param("steps")
	for i := 0; i < steps; i++ {
		a := nondetRange("addr", 2)
		switch nondetRange("op", 10) {
		case 0:
			var v common.Hash
			v[31] = nondetU8("slotval")
			db.SetState(c08Addrs[a], c08Slots[nondetRange("slot", 2)], v)
		case 1:
			db.SetNonce(c08Addrs[a], uint64(nondetU8("nonce")))
		case 2:
			db.SetCode(c08Addrs[a], nondetBytes("code", 1))
		case 3:
			db.AddBalance(c08Addrs[a], big.NewInt(int64(nondetRange("amount", 3))))
		case 4:
			db.AddLog(&types.StorageLog{Address: c08Addrs[a], Data: []byte{nondetU8("logtag")}})
		case 5:
			db.AddRefund(uint64(nondetU8("refund")))
		case 6:
			db.Suicide(c08Addrs[a])
		case 7:
			id := db.Snapshot()
			assert(id == len(ghosts), "snapshot-ids-are-sequential")
			ghosts = append(ghosts, c08Observe(db))
		case 8:
			if len(ghosts) == 0 {
				continue
			}
			id := nondetRange("revert.to", len(ghosts))
			db.RevertToSnapshot(id)
			now := c08Observe(db)
			g := ghosts[id]
			ghosts = ghosts[:id]
			assert(now.state == g.state, "revert-restores-storage-slots")
			assert(now.nonce == g.nonce, "revert-restores-nonces")
			assert(now.codeHash == g.codeHash, "revert-restores-code-hash")
			assert(now.codeLen == g.codeLen, "revert-restores-code")
			assert(now.balance == g.balance, "revert-restores-balances")
			assert(now.suicided == g.suicided, "revert-restores-selfdestruct-marks")
			assert(now.nlogs == g.nlogs, "revert-restores-log-count")
			assert(now.logTags == g.logTags, "revert-restores-log-content")
			assert(now.refund == g.refund, "revert-restores-refund-counter")
		default:
			if len(ghosts) == 0 {
				continue
			}
			id := nondetRange("discard", len(ghosts))
			db.DiscardSnapshot(id)
			ghosts = ghosts[:id]
		}
	}
	cover("program-finished")
}

func c08Mutate(db *StateDB) {
	a := nondetRange("addr", 2)
	switch nondetRange("op", 7) {
	case 0:
		var v common.Hash
		v[31] = nondetU8("slotval")
		db.SetState(c08Addrs[a], c08Slots[nondetRange("slot", 2)], v)
	case 1:
		db.SetNonce(c08Addrs[a], uint64(nondetU8("nonce")))
	case 2:
		db.SetCode(c08Addrs[a], nondetBytes("code", 1))
	case 3:
		db.AddBalance(c08Addrs[a], big.NewInt(int64(1+nondetRange("amount", 2))))
	case 4:
		db.AddLog(&types.StorageLog{Address: c08Addrs[a], Data: []byte{nondetU8("logtag")}})
	case 5:
		db.AddRefund(uint64(nondetU8("refund")))
	default:
		db.SetNonce(c08Addrs[a], 1+uint64(nondetU8("nonce")&0x7f)) // make the account non-empty
		db.Suicide(c08Addrs[a])
	}
}

func c08Compare(now, g c08Obs) {
	assert(now.state == g.state, "revert-restores-storage-slots")
	assert(now.nonce == g.nonce, "revert-restores-nonces")
	assert(now.codeHash == g.codeHash, "revert-restores-code-hash")
	assert(now.codeLen == g.codeLen, "revert-restores-code")
	assert(now.balance == g.balance, "revert-restores-balances")
	assert(now.suicided == g.suicided, "revert-restores-selfdestruct-marks")
	assert(now.nlogs == g.nlogs, "revert-restores-log-count")
	assert(now.logTags == g.logTags, "revert-restores-log-content")
	assert(now.refund == g.refund, "revert-restores-refund-counter")
}

// Harness_C08_nested: the skeleton mutate, Snapshot, mutate, Snapshot, mutate, Revert(i) [, Revert(0)] with
// every mutator symbolic: nested snapshots, reverting to the inner and to the outer one.
func Harness_C08_nested() {
	st := &c04Store{}
	cache := NewCacheDB(overlaydb.NewOverlayDB(st))
	db := NewStateDB(cache, common.Hash{}, common.Hash{}, c08Balance{})
	c08Mutate(db)
	s0 := db.Snapshot()
	g0 := c08Observe(db)
	c08Mutate(db)
	s1 := db.Snapshot()
	g1 := c08Observe(db)
	c08Mutate(db)
	assert(s0 == 0 && s1 == 1, "snapshot-ids-are-sequential")
	if nondetBool("inner.first") {
		db.RevertToSnapshot(s1)
		c08Compare(c08Observe(db), g1)
		db.RevertToSnapshot(s0)
		c08Compare(c08Observe(db), g0)
	} else {
		db.RevertToSnapshot(s0)
		c08Compare(c08Observe(db), g0)
	}
}
