package evm

import (
	"math/big"

	"github.com/ethereum/go-ethereum/common"
	"github.com/ethereum/go-ethereum/params"
	"github.com/ontio/ontology/common/constants"
	"github.com/ontio/ontology/core/types"
	"github.com/ontio/ontology/vm/evm"
)

// C07: applying an EIP-155 transaction conserves ONG (off mainnet), charges at most gasLimit*gasPrice+value,
// bumps the sender nonce by exactly one, and rejects a wrong nonce without touching state.
// The EVM interpreter is cut: Call/Create are stubs that may fail, use any amount of the gas they get,
// set any refund and move `value` conservatively (go-ethereum's contract for these two entry points).

var (
	c07Sender   = common.Address{0x01}
	c07Receiver = common.Address{0x02} // fee receiver
	c07Callee   = common.Address{0x03}
)

type c07State struct {
	bal       map[common.Address]*big.Int
	nonce     map[common.Address]uint64
	refund    uint64
	mutations int
}

func (s *c07State) get(a common.Address) *big.Int {
	if b, ok := s.bal[a]; ok {
		return b
	}
	return big.NewInt(0)
}
func (s *c07State) CreateAccount(common.Address) {}
func (s *c07State) SubBalance(a common.Address, v *big.Int) {
	s.mutations++
	s.bal[a] = new(big.Int).Sub(s.get(a), v)
}
func (s *c07State) AddBalance(a common.Address, v *big.Int) {
	s.mutations++
	s.bal[a] = new(big.Int).Add(s.get(a), v)
}
func (s *c07State) GetBalance(a common.Address) *big.Int { return new(big.Int).Set(s.get(a)) }
func (s *c07State) GetNonce(a common.Address) uint64     { return s.nonce[a] }
func (s *c07State) SetNonce(a common.Address, n uint64)  { s.mutations++; s.nonce[a] = n }
func (s *c07State) GetCodeHash(common.Address) common.Hash { return common.Hash{} }
func (s *c07State) GetCode(common.Address) []byte          { return nil }
func (s *c07State) SetCode(common.Address, []byte)         { s.mutations++ }
func (s *c07State) GetCodeSize(common.Address) int         { return 0 }
func (s *c07State) AddRefund(g uint64)                     { s.mutations++; s.refund += g }
func (s *c07State) SubRefund(g uint64)                     { s.mutations++; s.refund -= g }
func (s *c07State) GetRefund() uint64                      { return s.refund }
func (s *c07State) GetCommittedState(common.Address, common.Hash) common.Hash { return common.Hash{} }
func (s *c07State) GetState(common.Address, common.Hash) common.Hash          { return common.Hash{} }
func (s *c07State) SetState(common.Address, common.Hash, common.Hash)         { s.mutations++ }
func (s *c07State) Suicide(common.Address) bool                              { s.mutations++; return false }
func (s *c07State) HasSuicided(common.Address) bool                          { return false }
func (s *c07State) Exist(common.Address) bool                                { return true }
func (s *c07State) Empty(common.Address) bool                                { return false }
func (s *c07State) RevertToSnapshot(int)                                     {}
func (s *c07State) DiscardSnapshot(idx int)                                  {}
func (s *c07State) Snapshot() int                                            { return 0 }
func (s *c07State) AddLog(log *types.StorageLog)                             {}
func (s *c07State) AddPreimage(common.Hash, []byte)                          {}
func (s *c07State) ForEachStorage(common.Address, func(common.Hash, common.Hash) bool) error {
	return nil
}

type c07Msg struct {
	to       *common.Address
	gasPrice *big.Int
	gas      uint64
	value    *big.Int
	nonce    uint64
	data     []byte
}

func (m c07Msg) From() common.Address { return c07Sender }
func (m c07Msg) To() *common.Address  { return m.to }
func (m c07Msg) GasPrice() *big.Int   { return m.gasPrice }
func (m c07Msg) Gas() uint64          { return m.gas }
func (m c07Msg) Value() *big.Int      { return m.value }
func (m c07Msg) Nonce() uint64        { return m.nonce }
func (m c07Msg) CheckNonce() bool     { return true }
func (m c07Msg) Data() []byte         { return m.data }

var c07Chain *params.ChainConfig

// stubs (see spec.json)
func c07ChainConfig(e *evm.EVM) *params.ChainConfig { return c07Chain }

func c07Run(e *evm.EVM, caller evm.ContractRef, to common.Address, gas uint64, value *big.Int) (uint64, error) {
	st := e.StateDB.(*c07State)
	left := nondetU64("evm.leftover")
	assume(left <= gas)
	st.refund = nondetU64("evm.refund")
	if nondetBool("evm.fails") {
		return left, ErrGasLimitReached // any error: state changes of the call are reverted by the EVM
	}
	if value.Sign() > 0 {
		// the EVM moves the value only if the caller can pay (it re-checks CanTransfer)
		if st.get(caller.Address()).Cmp(value) < 0 {
			return left, ErrInsufficientFundsForTransfer
		}
		st.bal[caller.Address()] = new(big.Int).Sub(st.get(caller.Address()), value)
		st.bal[to] = new(big.Int).Add(st.get(to), value)
	}
	return left, nil
}

func c07Call(e *evm.EVM, caller evm.ContractRef, addr common.Address, input []byte, gas uint64, value *big.Int) ([]byte, uint64, error) {
	left, err := c07Run(e, caller, addr, gas, value)
	return nil, left, err
}

func c07Create(e *evm.EVM, caller evm.ContractRef, code []byte, gas uint64, value *big.Int) ([]byte, common.Address, uint64, error) {
	st := e.StateDB.(*c07State)
	// vm/evm.(*EVM).create: a creator that cannot pay `value` fails before its nonce is bumped
	if !e.Context.CanTransfer(e.StateDB, caller.Address(), value) {
		return nil, common.Address{}, gas, ErrInsufficientFundsForTransfer
	}
	st.nonce[caller.Address()] = st.nonce[caller.Address()] + 1 // then create bumps the creator's nonce
	left, err := c07Run(e, caller, c07Callee, gas, value)
	return nil, c07Callee, left, err
}

var c07GasPrices = []int64{0, 1, 3, 2500000000000}

func Harness_C07_transition() {
	st := &c07State{bal: map[common.Address]*big.Int{}, nonce: map[common.Address]uint64{}}
	balance := nondetBig("sender.balance", 100)
	assume(balance.Sign() >= 0)
	st.bal[c07Sender] = balance
	st.bal[c07Receiver] = big.NewInt(int64(nondetU32("receiver.balance")))
	st.bal[c07Callee] = big.NewInt(int64(nondetU32("callee.balance")))
	acctNonce := uint64(nondetU32("account.nonce"))
	st.nonce[c07Sender] = acctNonce
	mainnet := nondetBool("mainnet")
	chainID := int64(5851)
	if mainnet {
		chainID = constants.EIP155_CHAINID_MAINNET
	}
	c07Chain = &params.ChainConfig{ChainID: big.NewInt(chainID), HomesteadBlock: big.NewInt(0), IstanbulBlock: big.NewInt(0)}
	msg := c07Msg{gasPrice: big.NewInt(c07GasPrices[nondetRange("gasprice", len(c07GasPrices))]), gas: nondetU64("gaslimit"),
		value: big.NewInt(int64(nondetU32("value"))), nonce: uint64(nondetU32("tx.nonce")), data: nondetBytes("data", nondetRange("datalen", 3))}
	assume(msg.gas <= 1<<40) // gas limits are bounded by the block gas limit
	if !nondetBool("creation") {
		msg.to = &c07Callee
	}
	e := &evm.EVM{StateDB: st}
	e.Context.BlockNumber = big.NewInt(int64(nondetU32("blocknumber")))
	e.Context.CanTransfer = func(db evm.StateDB, a common.Address, v *big.Int) bool { return db.GetBalance(a).Cmp(v) >= 0 }
	total := new(big.Int).Add(new(big.Int).Add(st.get(c07Sender), st.get(c07Receiver)), st.get(c07Callee))
	senderBefore := new(big.Int).Set(st.get(c07Sender))
	res, err := ApplyMessage(e, msg, c07Receiver)
	cover("applymessage-returned")
	if msg.nonce != acctNonce {
		assert(err != nil, "wrong-nonce-rejected")
		assert(st.mutations == 0, "wrong-nonce-changes-no-state")
		return
	}
	assert(err == nil, "right-nonce-accepted")
	if err != nil {
		return
	}
	_ = res
	assert(st.nonce[c07Sender] == acctNonce+1, "sender-nonce-advances-by-exactly-one")
	if mainnet {
		return // the mainnet branch of buyGas is non-conserving by design (property excludes mainnet ids)
	}
	inKF := knownFinding("C07-refund-height-mints-ong", e.Context.BlockNumber.Uint64() == RefundHeight)
	_ = inKF
	after := new(big.Int).Add(new(big.Int).Add(st.get(c07Sender), st.get(c07Receiver)), st.get(c07Callee))
	assert(bigEq(after, total), "ong-conserved")
	maxCharge := new(big.Int).Add(new(big.Int).Mul(new(big.Int).SetUint64(msg.gas), msg.gasPrice), msg.value)
	spent := new(big.Int).Sub(senderBefore, st.get(c07Sender))
	assert(bigLe(spent, maxCharge), "sender-charged-at-most-gaslimit-times-price-plus-value")
	assert(st.get(c07Sender).Sign() >= 0, "sender-balance-not-negative")
}
