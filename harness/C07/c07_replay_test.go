package evm

// Native demonstration of the known finding C07-refund-height-mints-ong: at block RefundHeight the real
// refundGas/handleGasFee credits RefundValue to the sender of a gas-adjusted transaction out of nothing,
// whatever the chain id (the harness ledger model is used as the StateDB).

import (
	"fmt"
	"math/big"
	"testing"

	"github.com/ethereum/go-ethereum/common"
	"github.com/ontio/ontology/vm/evm"
)

func TestC07RefundHeightMintsOng(t *testing.T) {
	st := &c07State{bal: map[common.Address]*big.Int{}, nonce: map[common.Address]uint64{}}
	st.bal[c07Sender] = big.NewInt(5)
	e := &evm.EVM{StateDB: st}
	e.Context.BlockNumber = big.NewInt(RefundHeight)
	tr := &StateTransition{msg: c07Msg{gasPrice: big.NewInt(1), value: big.NewInt(0)}, gasPrice: big.NewInt(1), state: st, evm: e,
		GasReceiver: c07Receiver}
	before := new(big.Int).Add(st.get(c07Sender), st.get(c07Receiver))
	tr.refundGas(true) // adjustedGas = true: the sender could not afford gasLimit*gasPrice
	after := new(big.Int).Add(st.get(c07Sender), st.get(c07Receiver))
	if after.Cmp(before) != 0 {
		fmt.Printf("VERIF-REPLAY: ASSERT-FAILED ong-conserved (total %s -> %s at block %d)\n", before, after, RefundHeight)
	} else {
		fmt.Println("VERIF-REPLAY: OK total unchanged")
	}
}
