package ont

import (
	"bytes"
	"math/big"

	"github.com/laizy/bigint"
	"github.com/ontio/ontology/common"
	cstates "github.com/ontio/ontology/core/states"
	scom "github.com/ontio/ontology/core/store/common"
	"github.com/ontio/ontology/core/store/overlaydb"
	"github.com/ontio/ontology/core/types"
	"github.com/ontio/ontology/smartcontract/context"
	"github.com/ontio/ontology/smartcontract/event"
	"github.com/ontio/ontology/smartcontract/service/native"
	"github.com/ontio/ontology/smartcontract/service/native/utils"
	"github.com/ontio/ontology/smartcontract/storage"
)

// C06: native token transfers conserve supply and respect authorization.
// The real Transfer / TransferedFrom / fromApprove / reduceFromBalance / increaseToBalance and the real
// balance storage codec run over a real CacheDB/OverlayDB on a model store; the execution context only
// answers CheckWitness from a symbolic witness set.

type c06KV struct{ k, v []byte }
type c06Store struct{ es []c06KV }

func (s *c06Store) find(key []byte) int {
	for i := range s.es {
		if bytes.Equal(s.es[i].k, key) {
			return i
		}
	}
	return -1
}
func (s *c06Store) Put(key []byte, value []byte) error { return nil }
func (s *c06Store) Get(key []byte) ([]byte, error) {
	if i := s.find(key); i >= 0 {
		return s.es[i].v, nil
	}
	return nil, scom.ErrNotFound
}
func (s *c06Store) Has(key []byte) (bool, error)                 { return s.find(key) >= 0, nil }
func (s *c06Store) Delete(key []byte) error                      { return nil }
func (s *c06Store) NewBatch()                                    {}
func (s *c06Store) BatchPut(key []byte, value []byte)            {}
func (s *c06Store) BatchDelete(key []byte)                       {}
func (s *c06Store) BatchCommit() error                           { return nil }
func (s *c06Store) Close() error                                 { return nil }
func (s *c06Store) NewIterator(prefix []byte) scom.StoreIterator { return nil }

type c06Ctx struct {
	witness  [3]bool
	accounts [3]common.Address
	contract common.Address
}

func (c *c06Ctx) PushContext(*context.Context)   {}
func (c *c06Ctx) CurrentContext() *context.Context { return &context.Context{ContractAddress: c.contract} }
func (c *c06Ctx) CallingContext() *context.Context { return nil }
func (c *c06Ctx) EntryContext() *context.Context   { return nil }
func (c *c06Ctx) PopContext()                      {}
func (c *c06Ctx) CheckWitness(a common.Address) bool {
	for i := range c.accounts {
		if c.accounts[i] == a {
			return c.witness[i]
		}
	}
	return false
}
func (c *c06Ctx) PushNotifications([]*event.NotifyEventInfo) {}
func (c *c06Ctx) NewExecuteEngine([]byte, types.TransactionType) (context.Engine, error) {
	return nil, nil
}
func (c *c06Ctx) CheckUseGas(uint64) bool             { return true }
func (c *c06Ctx) GetGasInfo() (uint64, uint64)        { return 0, 0 }
func (c *c06Ctx) CheckExecStep() bool                 { return true }
func (c *c06Ctx) GetCallerAddress() []common.Address  { return nil }
func (c *c06Ctx) SetInternalErr()                     {}
func (c *c06Ctx) IsInternalErr() bool                 { return false }
func (c *c06Ctx) PutCrossStateHashes([]common.Uint256) {}

func c06Addr(b byte) common.Address {
	var a common.Address
	for i := range a {
		a[i] = b
	}
	return a
}

func c06Amount(tag string) cstates.NativeTokenBalance {
	v := nondetBig(tag, param("bits"))
	assume(v.Sign() >= 0)
	return cstates.NativeTokenBalance{Balance: bigint.New(v)}
}

// The balance storage-item codec (checked separately under C21) is replaced by a token table: a stored
// value is one byte naming an entry of c06Vals (see spec.json stubs).
var c06Vals []cstates.NativeTokenBalance

func c06Encode(b cstates.NativeTokenBalance) []byte {
	c06Vals = append(c06Vals, b)
	return []byte{byte(len(c06Vals))}
}

func c06Decode(cache *storage.CacheDB, key []byte) (cstates.NativeTokenBalance, error) {
	v, err := cache.Get(key)
	if err != nil {
		return cstates.NativeTokenBalance{}, err
	}
	if len(v) == 0 {
		return cstates.NativeTokenBalanceFromInteger(0), nil
	}
	return c06Vals[int(v[0])-1], nil
}

func c06Get(cache *storage.CacheDB, key []byte) *big.Int {
	b, err := utils.GetNativeTokenBalance(cache, key)
	assert(err == nil, "stored-balance-decodes")
	return b.Balance.BigInt()
}

func Harness_C06_transfers() {
	ctx := &c06Ctx{contract: utils.OntContractAddress}
	for i := range ctx.accounts {
		ctx.accounts[i] = c06Addr(byte(0x11 * (i + 1)))
		ctx.witness[i] = nondetBool("witness")
	}
	c06Vals = nil
	cache := storage.NewCacheDB(overlaydb.NewOverlayDB(&c06Store{}))
	ns := &native.NativeService{CacheDB: cache, ContextRef: ctx}
	if nondetBool("after.deadline") {
		ns.Time = 0xFFFFFFF0
	}
	contract := ctx.contract
	// arbitrary starting balances and allowances, written through the real codec
	for i := range ctx.accounts {
		b := c06Amount("balance")
		if !b.IsZero() {
			cache.Put(GenBalanceKey(contract, ctx.accounts[i]), b.MustToStorageItemBytes())
		}
	}
	sumBefore := new(big.Int)
	for i := range ctx.accounts {
		sumBefore.Add(sumBefore, c06Get(cache, GenBalanceKey(contract, ctx.accounts[i])))
	}
	ops := param("ops")
	for n := 0; n < ops; n++ {
		from, to, sender := nondetRange("from", 3), nondetRange("to", 3), nondetRange("sender", 3)
		val := c06Amount("value")
		fromBal := c06Get(cache, GenBalanceKey(contract, ctx.accounts[from]))
		if nondetBool("transferFrom") {
			akey := genTransferFromKey(contract, ctx.accounts[from], ctx.accounts[sender])
			allow := c06Amount("allowance")
			if !allow.IsZero() {
				cache.Put(akey, allow.MustToStorageItemBytes())
			} else {
				cache.Delete(akey)
			}
			if to != sender {
				// the recipient may hold an allowance of its own from the same owner; it must play no role
				okey := genTransferFromKey(contract, ctx.accounts[from], ctx.accounts[to])
				other := c06Amount("allowance.of.recipient")
				if !other.IsZero() {
					cache.Put(okey, other.MustToStorageItemBytes())
				} else {
					cache.Delete(okey)
				}
			}
			_, _, err := TransferedFrom(ns, contract, &TransferFromStateV2{Sender: ctx.accounts[sender],
				TransferStateV2: TransferStateV2{From: ctx.accounts[from], To: ctx.accounts[to], Value: val}})
			if err == nil {
				cover("transferFrom-succeeded")
				assert(ctx.witness[sender], "transferFrom-needs-the-spender-witness")
				assert(bigLe(val.Balance.BigInt(), allow.Balance.BigInt()), "transferFrom-within-allowance")
				assert(bigLe(val.Balance.BigInt(), fromBal), "transferFrom-within-balance")
				left := c06Get(cache, akey)
				assert(bigEq(new(big.Int).Add(left, val.Balance.BigInt()), allow.Balance.BigInt()), "allowance-shrinks-by-exactly-the-amount")
			}
		} else {
			_, _, err := Transfer(ns, contract, ctx.accounts[from], ctx.accounts[to], val)
			if err == nil {
				cover("transfer-succeeded")
				assert(ctx.witness[from], "transfer-needs-the-owner-witness")
				assert(bigLe(val.Balance.BigInt(), fromBal), "transfer-within-balance")
				if from != to {
					after := c06Get(cache, GenBalanceKey(contract, ctx.accounts[from]))
					assert(bigEq(new(big.Int).Add(after, val.Balance.BigInt()), fromBal), "debit-is-exactly-the-amount")
				}
			}
		}
		sum := new(big.Int)
		for i := range ctx.accounts {
			b := c06Get(cache, GenBalanceKey(contract, ctx.accounts[i]))
			assert(b.Sign() >= 0, "no-negative-balance")
			sum.Add(sum, b)
		}
		assert(bigEq(sum, sumBefore), "sum-of-balances-unchanged")
	}
}

// c06RandHeight replaces MemDB.randHeight: skip-list heights do not matter here.
func c06RandHeight(p *overlaydb.MemDB) int { return 1 }
