package auth

import (
	"github.com/ontio/ontology/common"
	"github.com/ontio/ontology/smartcontract/service/native"
)

// C41: verifyToken confirms exactly when the caller proved its key and holds, directly or through an
// unexpired delegation, a role the function is assigned to. Storage getters are harness records.

var (
	c41KeyProved bool
	c41Tokens    *roleTokens
	c41Status    *Status
	c41RoleFns   = map[string]*roleFuncs{}
)

// stubs (see spec.json)
func c41VerifySig(native *native.NativeService, ontID []byte, keyNo uint64) (bool, error) {
	return c41KeyProved, nil
}
func c41GetTokens(native *native.NativeService, contractAddr common.Address, ontID []byte) (*roleTokens, error) {
	return c41Tokens, nil
}
func c41GetStatus(native *native.NativeService, contractAddr common.Address, ontID []byte) (*Status, error) {
	return c41Status, nil
}
func c41GetRoleFunc(native *native.NativeService, contractAddr common.Address, role []byte) (*roleFuncs, error) {
	return c41RoleFns[string(role)], nil
}

var c41Roles = [][]byte{[]byte("r1"), []byte("r2")}
var c41Fns = []string{"f", "g"}

func Harness_C41_verify_token() {
	c41KeyProved = nondetBool("keyproved")
	now := nondetU32("now")
	ns := &native.NativeService{Time: now}
	// role -> functions (a role may be undefined)
	c41RoleFns = map[string]*roleFuncs{}
	var roleHas [2][2]bool
	var roleDefined [2]bool
	for r := 0; r < 2; r++ {
		if nondetBool("role.defined") {
			roleDefined[r] = true
			rf := &roleFuncs{}
			for f := 0; f < 2; f++ {
				if nondetBool("role.hasfn") {
					roleHas[r][f] = true
					rf.funcNames = append(rf.funcNames, c41Fns[f])
				}
			}
			c41RoleFns[string(c41Roles[r])] = rf
		}
	}
	granted := [2]bool{} // is fn f granted through some unexpired token / delegation
	nt := nondetRange("ntokens", param("maxtokens")+1)
	c41Tokens = nil
	if nt > 0 || nondetBool("tokens.present") {
		c41Tokens = &roleTokens{}
	}
	for i := 0; i < nt; i++ {
		r := nondetRange("token.role", 2)
		exp := nondetU32("token.expire")
		c41Tokens.tokens = append(c41Tokens.tokens, &AuthToken{role: c41Roles[r], expireTime: exp, level: 2})
		for f := 0; f < 2; f++ {
			granted[f] = or(granted[f], and(and(roleDefined[r], roleHas[r][f]), exp >= now))
		}
	}
	nd := nondetRange("ndelegations", param("maxtokens")+1)
	c41Status = nil
	if nd > 0 || nondetBool("status.present") {
		c41Status = &Status{}
	}
	for i := 0; i < nd; i++ {
		r := nondetRange("deleg.role", 2)
		exp := nondetU32("deleg.expire")
		c41Status.status = append(c41Status.status, &DelegateStatus{root: []byte("root"), AuthToken: AuthToken{role: c41Roles[r], expireTime: exp, level: 1}})
		for f := 0; f < 2; f++ {
			granted[f] = or(granted[f], and(and(roleDefined[r], roleHas[r][f]), exp >= now))
		}
	}
	fi := nondetRange("fn", 3)
	fn := "h" // a function no role lists
	want := false
	if fi < 2 {
		fn = c41Fns[fi]
		want = granted[fi]
	}
	ok, err := verifyToken(ns, common.Address{}, []byte("did:ont:caller"), fn, 1)
	assert(err == nil, "no-error-with-readable-records")
	assert(ok == and(c41KeyProved, want), "confirmed-exactly-when-key-proved-and-role-grants-function")
}
