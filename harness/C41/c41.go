package auth

import (
	"github.com/ontio/ontology/common"
	"github.com/ontio/ontology/smartcontract/service/native"
)

// C41: verifyToken confirms exactly when the caller proved its key and holds, directly or through an
// unexpired delegation, a role the function is assigned to. Storage getters are harness records.

var (
	c41KeyProved bool
	c41Tokens    *roleTokens
	c41Status    *Status
	c41RoleFns   = map[string]*roleFuncs{}
)

// stubs (see spec.json)
func c41VerifySig(native *native.NativeService, ontID []byte, keyNo uint64) (bool, error) {
	return c41KeyProved, nil
}
func c41GetTokens(native *native.NativeService, contractAddr common.Address, ontID []byte) (*roleTokens, error) {
	return c41Tokens, nil
}
func c41GetStatus(native *native.NativeService, contractAddr common.Address, ontID []byte) (*Status, error) {
	return c41Status, nil
}
func c41GetRoleFunc(native *native.NativeService, contractAddr common.Address, role []byte) (*roleFuncs, error) {
	return c41RoleFns[string(role)], nil
}

var c41Roles = [][]byte{[]byte("r1"), []byte("r2")}
var c41Fns = []string{"f", "g"}

func Harness_C41_verify_token() {
	c41KeyProved = nondetBool("keyproved")
	now := nondetU32("now")
	ns := &native.NativeService{Time: now}
	// role -> functions (a role may be undefined)
	c41RoleFns = map[string]*roleFuncs{}
	var roleHas [2][2]bool
	var roleDefined [2]bool
	for r := 0; r < 2; r++ {
		if nondetBool("role.defined") {
			roleDefined[r] = true
			rf := &roleFuncs{}
			for f := 0; f < 2; f++ {
				if nondetBool("role.hasfn") {
					roleHas[r][f] = true
					rf.funcNames = append(rf.funcNames, c41Fns[f])
				}
			}
			c41RoleFns[string(c41Roles[r])] = rf
		}
	}
	granted := [2]bool{} // is fn f granted through some unexpired token / delegation
	nt := nondetRange("ntokens", param("maxtokens")+1)
	c41Tokens = nil
	if nt > 0 || nondetBool("tokens.present") {
		c41Tokens = &roleTokens{}
	}
	for i := 0; i < nt; i++ {
		r := nondetRange("token.role", 2)
		exp := nondetU32("token.expire")
		c41Tokens.tokens = append(c41Tokens.tokens, &AuthToken{role: c41Roles[r], expireTime: exp, level: 2})
		for f := 0; f < 2; f++ {
			granted[f] = or(granted[f], and(and(roleDefined[r], roleHas[r][f]), exp >= now))
		}
	}
	nd := nondetRange("ndelegations", param("maxtokens")+1)
	c41Status = nil
	if nd > 0 || nondetBool("status.present") {
		c41Status = &Status{}
	}
	for i := 0; i < nd; i++ {
		r := nondetRange("deleg.role", 2)
		exp := nondetU32("deleg.expire")
		c41Status.status = append(c41Status.status, &DelegateStatus{root: []byte("root"), AuthToken: AuthToken{role: c41Roles[r], expireTime: exp, level: 1}})
		for f := 0; f < 2; f++ {
			granted[f] = or(granted[f], and(and(roleDefined[r], roleHas[r][f]), exp >= now))
		}
	}
	fi := nondetRange("fn", 3)
	fn := "h" // a function no role lists
	want := false
	if fi < 2 {
		fn = c41Fns[fi]
		want = granted[fi]
	}
	ok, err := verifyToken(ns, common.Address{}, []byte("did:ont:caller"), fn, 1)
	assert(err == nil, "no-error-with-readable-records")
	assert(ok == and(c41KeyProved, want), "confirmed-exactly-when-key-proved-and-role-grants-function")
}

// ---- delegation / withdrawal histories ----

var (
	c41TokStore  = map[string]*roleTokens{}
	c41StatStore = map[string]*Status{}
	c41Proved    = map[string]bool{}
)

func c41CopyStatus(s *Status) *Status {
	if s == nil {
		return nil
	}
	out := &Status{}
	for _, d := range s.status {
		c := *d
		out.status = append(out.status, &c)
	}
	return out
}

// stubs for the history harness: a per-identity record store with value (serialise/deserialise) semantics
func c41VerifySigBy(native *native.NativeService, ontID []byte, keyNo uint64) (bool, error) {
	return c41Proved[string(ontID)], nil
}
func c41GetTokensBy(native *native.NativeService, contractAddr common.Address, ontID []byte) (*roleTokens, error) {
	return c41TokStore[string(ontID)], nil
}
func c41GetStatusBy(native *native.NativeService, contractAddr common.Address, ontID []byte) (*Status, error) {
	return c41CopyStatus(c41StatStore[string(ontID)]), nil
}
func c41PutStatusBy(native *native.NativeService, contractAddr common.Address, ontID []byte, status *Status) error {
	c41StatStore[string(ontID)] = c41CopyStatus(status)
	return nil
}
func c41VerifyID(id string) bool { return true }

type c41Deleg struct {
	exists bool
	root   int
	expire uint32
}

// Harness_C41_delegation: two role holders A and B delegate roles to C and withdraw them, at arbitrary
// non-decreasing times; afterwards C may call a role's function exactly when C proved its key and holds an
// unexpired delegation that its delegator has not withdrawn.
func Harness_C41_delegation() {
	holders := [][]byte{[]byte("did:ont:A"), []byte("did:ont:B")}
	target := []byte("did:ont:C")
	holderExpire := nondetU32("holder.expire")
	c41TokStore = map[string]*roleTokens{}
	c41StatStore = map[string]*Status{}
	c41Proved = map[string]bool{}
	c41RoleFns = map[string]*roleFuncs{
		"r1": {funcNames: []string{"f"}},
		"r2": {funcNames: []string{"g"}},
	}
	for _, h := range holders {
		c41TokStore[string(h)] = &roleTokens{tokens: []*AuthToken{
			{role: c41Roles[0], expireTime: holderExpire, level: 2},
			{role: c41Roles[1], expireTime: holderExpire, level: 2},
		}}
	}
	var ref [2]c41Deleg
	now := nondetU32("now")
	ns := &native.NativeService{Time: now}
	steps := param("steps")
	for i := 0; i < steps; i++ {
		dt := nondetU32("dt")
		assume(now+dt >= now)
		now += dt
		ns.Time = now
		who := nondetRange("who", 2)
		r := nondetRange("role", param("roles"))
		kp := nondetBool("keyproved")
		c41Proved[string(holders[who])] = kp
		if nondetBool("withdraw") {
			ok, err := withdraw(ns, common.Address{}, holders[who], target, c41Roles[r], 1)
			want := kp && ref[r].exists && ref[r].root == who
			assert(err == nil, "withdraw-no-error")
			assert(ok == want, "withdraw-succeeds-exactly-for-the-delegator")
			if want {
				ref[r].exists = false
			}
		} else {
			period := nondetU32("period")
			level := nondetU8("level")
			ok, err := delegate(ns, common.Address{}, holders[who], target, c41Roles[r], period, level, 1)
			if now+period < period {
				assert(err != nil, "delegate-overflow-rejected")
				continue
			}
			assert(err == nil, "delegate-no-error")
			held := ref[r].exists && now < ref[r].expire
			want := kp && !held && level == 1 && now+period < holderExpire
			assert(ok == want, "delegate-succeeds-exactly-when-allowed")
			if want {
				ref[r] = c41Deleg{exists: true, root: who, expire: now + period}
			}
		}
	}
	dt := nondetU32("dt.final")
	assume(now+dt >= now)
	ns.Time = now + dt
	kpc := nondetBool("keyproved.c")
	c41Proved[string(target)] = kpc
	fi := nondetRange("fn", param("roles"))
	ok, err := verifyToken(ns, common.Address{}, target, c41Fns[fi], 1)
	assert(err == nil, "verify-no-error")
	want := kpc && ref[fi].exists && ref[fi].expire >= ns.Time
	assert(ok == want, "delegate-may-call-exactly-while-delegation-stands")
}
