package types

import (
	"github.com/ontio/ontology/common"
)

// C14: NeoVM value serialization round-trips and rejects cycles safely.

const (
	c14Array  = 0
	c14Struct = 1
	c14Map    = 2
)

type c14Graph struct {
	n     int
	kind  []int
	arr   []*ArrayValue
	st    []*StructValue
	mp    []*MapValue
	edges [][]int // per node, per slot: -1 leaf, else target node
}

func (g *c14Graph) value(i int) VmValue {
	switch g.kind[i] {
	case c14Array:
		return VmValueFromArrayVal(g.arr[i])
	case c14Struct:
		return VmValueFromStructVal(g.st[i])
	default:
		return VmValueFromMapValue(g.mp[i])
	}
}

func c14Leaf(which int) VmValue {
	switch which {
	case 0:
		// small integers here; full-width integer leaves are covered by Harness_C14_leaf
		return VmValueFromInt64(int64(nondetI8("leaf.int")))
	case 1:
		n := nondetRange("leaf.len", 2)
		v, _ := VmValueFromBytes(nondetBytes("leaf.bytes", n))
		return v
	default:
		return VmValueFromBool(nondetBool("leaf.bool"))
	}
}

// c14Build makes n container nodes with up to maxSlots slots each; every slot is a leaf or a reference
// to any node (including itself and earlier/later nodes): shared and cyclic references at any position.
func c14Build(n, maxSlots, maxMapSlots int) *c14Graph {
	g := &c14Graph{n: n}
	for i := 0; i < n; i++ {
		k := nondetRange("kind", 3)
		g.kind = append(g.kind, k)
		g.arr = append(g.arr, NewArrayValue())
		g.st = append(g.st, NewStructValue())
		g.mp = append(g.mp, NewMapValue())
	}
	for i := 0; i < n; i++ {
		ms := maxSlots
		if g.kind[i] == c14Map {
			ms = maxMapSlots
		}
		slots := nondetRange("nslots", ms+1)
		var e []int
		for j := 0; j < slots; j++ {
			c := nondetRange("slot", 3+n)
			var v VmValue
			if c < 3 {
				v = c14Leaf(c)
				e = append(e, -1)
			} else {
				v = g.value(c - 3)
				e = append(e, c-3)
			}
			switch g.kind[i] {
			case c14Array:
				g.arr[i].Append(v)
			case c14Struct:
				g.st[i].Append(v)
			default:
				g.mp[i].Set(VmValueFromInt64(int64(j+1)), v)
			}
		}
		g.edges = append(g.edges, e)
	}
	return g
}

// cyclicFrom: does a cycle exist among nodes reachable from root? (reference model, concrete per path)
func (g *c14Graph) cyclicFrom(root int) bool {
	state := make([]int, g.n) // 0 new, 1 on stack, 2 done
	var dfs func(i int) bool
	dfs = func(i int) bool {
		state[i] = 1
		for _, t := range g.edges[i] {
			if t < 0 {
				continue
			}
			if state[t] == 1 {
				return true
			}
			if state[t] == 0 && dfs(t) {
				return true
			}
		}
		state[i] = 2
		return false
	}
	return dfs(root)
}

// firstChainCyclic: does following only the FIRST slot of each node from root come back to a visited node?
func (g *c14Graph) firstChainCyclic(root int) bool {
	seen := make([]bool, g.n)
	i := root
	for {
		if seen[i] {
			return true
		}
		seen[i] = true
		if len(g.edges[i]) == 0 || g.edges[i][0] < 0 {
			return false
		}
		i = g.edges[i][0]
	}
}

func c14Same(a, b *VmValue, depth int) bool {
	if depth > 6 {
		return false
	}
	switch a.valType {
	case integerType:
		return b.valType == integerType && a.integer == b.integer
	case boolType:
		return b.valType == boolType && a.integer == b.integer
	case bytearrayType:
		return b.valType == bytearrayType && len(a.byteArray) == len(b.byteArray) && bytesEq(a.byteArray, b.byteArray)
	case arrayType:
		if b.valType != arrayType || len(a.array.Data) != len(b.array.Data) {
			return false
		}
		for i := range a.array.Data {
			if !c14Same(&a.array.Data[i], &b.array.Data[i], depth+1) {
				return false
			}
		}
		return true
	case structType:
		if b.valType != structType || len(a.structval.Data) != len(b.structval.Data) {
			return false
		}
		for i := range a.structval.Data {
			if !c14Same(&a.structval.Data[i], &b.structval.Data[i], depth+1) {
				return false
			}
		}
		return true
	case mapType:
		if b.valType != mapType || len(a.mapval.Data) != len(b.mapval.Data) {
			return false
		}
		for _, k := range a.mapval.getMapSortedKey() {
			x := a.mapval.Data[k]
			y, ok := b.mapval.Data[k]
			if !ok {
				return false
			}
			if !c14Same(&x[0], &y[0], depth+1) || !c14Same(&x[1], &y[1], depth+1) {
				return false
			}
		}
		return true
	}
	return false
}

// Harness_C14_shapes: every shape of <= nodes containers: acyclic values round-trip, cyclic ones are rejected
// with an error by Serialize and BuildParamToNative (unbounded recursion = violation via depth bound).
func Harness_C14_shapes() {
	g := c14Build(param("nodes"), param("slots"), 1)
	root := g.value(0)
	cyc := g.cyclicFrom(0)
	inKF := knownFinding("C14-cycle-beyond-first-element", cyc && !g.firstChainCyclic(0))
	_ = inKF
	if cyc {
		// the rejection mechanism is the cycle detector, not exhaustion of the 1 MiB size limit
		det, derr := root.CircularRefAndDepthDetection()
		assert(det || derr != nil, "cycle-reported-by-detector")
	}
	sink := common.NewZeroCopySink(nil)
	err := root.Serialize(sink)
	if cyc {
		assert(err != nil, "cyclic-value-rejected-by-serialize")
		sink2 := common.NewZeroCopySink(nil)
		err2 := root.BuildParamToNative(sink2)
		assert(err2 != nil, "cyclic-value-rejected-by-buildparam")
		return
	}
	assert(err == nil, "acyclic-value-serializes")
	if err != nil {
		return
	}
	var out VmValue
	err3 := out.Deserialize(common.NewZeroCopySource(sink.Bytes()))
	assert(err3 == nil, "serialized-value-deserializes")
	if err3 == nil {
		assert(c14Same(&root, &out, 0), "roundtrip-equal")
	}
}

// Harness_C14_bytes: any byte string either deserializes or is rejected without panicking; what it
// deserializes to serializes again and round-trips.
func Harness_C14_bytes() {
	n := nondetRange("n", param("maxlen")+1)
	buf := nondetBytes("buf", n)
	var v VmValue
	err := v.Deserialize(common.NewZeroCopySource(buf))
	cover("deserialize-returned")
	if err != nil {
		assert(true, "rejected-without-panic")
		return
	}
	sink := common.NewZeroCopySink(nil)
	err2 := v.Serialize(sink)
	assert(err2 == nil, "decoded-value-serializes")
	if err2 != nil {
		return
	}
	var w VmValue
	err3 := w.Deserialize(common.NewZeroCopySource(sink.Bytes()))
	assert(err3 == nil, "reserialized-deserializes")
	if err3 == nil {
		assert(c14Same(&v, &w, 0), "bytes-roundtrip-equal")
	}
}

// Harness_C14_leaf: a single primitive value of any size class round-trips.
func Harness_C14_leaf() {
	var v VmValue
	switch nondetRange("kind", 4) {
	case 0:
		v = VmValueFromInt64(nondetI64("int"))
	case 1:
		b := nondetBig("big", 256)
		assume(!b.IsInt64())
		var err error
		v, err = VmValueFromBigInt(b)
		assert(err == nil, "big-within-32-bytes-accepted")
	case 2:
		n := nondetRange("len", 5)
		v, _ = VmValueFromBytes(nondetBytes("bytes", n))
	default:
		v = VmValueFromBool(nondetBool("bool"))
	}
	sink := common.NewZeroCopySink(nil)
	err := v.Serialize(sink)
	assert(err == nil, "leaf-serializes")
	var out VmValue
	err2 := out.Deserialize(common.NewZeroCopySource(sink.Bytes()))
	assert(err2 == nil, "leaf-deserializes")
	if err2 != nil {
		return
	}
	if v.valType == bigintType {
		assert(out.valType == bigintType, "big-stays-big")
		assert(bigEq(out.bigInt, v.bigInt), "big-roundtrip")
		return
	}
	assert(c14Same(&v, &out, 0), "leaf-roundtrip")
}

// Harness_C14_counts: container headers with every var-uint width and a full-width symbolic element count
// (including counts >= 2^63 and counts far beyond the data): rejected or decoded, never a panic.
func Harness_C14_counts() {
	ty := []byte{arrayType, structType, mapType}[nondetRange("container", 3)]
	buf := []byte{ty}
	switch nondetRange("width", 4) {
	case 0:
		buf = append(buf, nondetU8("count8"))
	case 1:
		buf = append(buf, 0xFD)
		buf = append(buf, nondetBytes("count16", 2)...)
	case 2:
		buf = append(buf, 0xFE)
		buf = append(buf, nondetBytes("count32", 4)...)
	default:
		buf = append(buf, 0xFF)
		buf = append(buf, nondetBytes("count64", 8)...)
	}
	buf = append(buf, nondetBytes("rest", nondetRange("restlen", 3))...)
	var v VmValue
	err := v.Deserialize(common.NewZeroCopySource(buf))
	cover("deserialize-returned")
	assert(true, "no-panic-on-any-count")
	_ = err
}
