package crossvm_codec

import (
	"math/big"

	"github.com/ontio/ontology/common"
)

// C25: cross-VM parameter codec round-trips and rejects malformed input without panicking.

func c25Leaf(tag string) interface{} {
	switch nondetRange(tag+".kind", 6) {
	case 0:
		n := nondetRange(tag+".blen", 3)
		return nondetBytes(tag+".bytes", n)
	case 1:
		n := nondetRange(tag+".slen", 3)
		return string(nondetBytes(tag+".str", n))
	case 2:
		var a common.Address
		copy(a[:], nondetBytes(tag+".addr", common.ADDR_LEN))
		return a
	case 3:
		return nondetBool(tag + ".bool")
	case 4:
		v := nondetBig(tag+".int", 127)
		return v
	default:
		var h common.Uint256
		copy(h[:], nondetBytes(tag+".h256", common.UINT256_SIZE))
		return h
	}
}

func c25Same(a, b interface{}, depth int) bool {
	if depth > 4 {
		return false
	}
	switch x := a.(type) {
	case []byte:
		y, ok := b.([]byte)
		return ok && len(x) == len(y) && bytesEq(x, y)
	case string:
		y, ok := b.(string)
		return ok && x == y
	case common.Address:
		y, ok := b.(common.Address)
		return ok && x == y
	case bool:
		y, ok := b.(bool)
		return ok && x == y
	case *big.Int:
		y, ok := b.(*big.Int)
		return ok && bigEq(x, y)
	case common.Uint256:
		y, ok := b.(common.Uint256)
		return ok && x == y
	case []interface{}:
		y, ok := b.([]interface{})
		if !ok || len(x) != len(y) {
			return false
		}
		for i := range x {
			if !c25Same(x[i], y[i], depth+1) {
				return false
			}
		}
		return true
	}
	return false
}

// Harness_C25_values: nested lists (depth <= 2, <= 2 elements) over all leaf types encode and decode back
// to equal values, consuming exactly the encoding.
func Harness_C25_values() {
	var v interface{}
	if nondetBool("toplist") {
		n := nondetRange("n", param("maxn")+1)
		var l []interface{}
		for i := 0; i < n; i++ {
			if nondetBool("inner.list") {
				m := nondetRange("m", param("maxn")+1)
				var in []interface{}
				for j := 0; j < m; j++ {
					in = append(in, c25Leaf("leaf"))
				}
				l = append(l, in)
			} else {
				l = append(l, c25Leaf("leaf"))
			}
		}
		if l == nil {
			l = []interface{}{}
		}
		v = l
	} else {
		v = c25Leaf("leaf")
	}
	enc, err := EncodeValue(v)
	assert(err == nil, "in-range-value-encodes")
	if err != nil {
		return
	}
	src := common.NewZeroCopySource(enc)
	dec, err2 := DecodeValue(src)
	assert(err2 == nil, "encoding-decodes")
	if err2 != nil {
		return
	}
	assert(src.Len() == 0, "encoding-fully-consumed")
	assert(c25Same(v, dec, 0), "value-roundtrip")
}

// Harness_C25_bytes: any byte string either decodes or is rejected without panicking; a decoded value
// re-encodes to exactly the consumed bytes.
func Harness_C25_bytes() {
	n := nondetRange("n", param("maxlen")+1)
	buf := nondetBytes("buf", n)
	src := common.NewZeroCopySource(buf)
	v, err := DecodeValue(src)
	cover("decode-returned")
	if err != nil {
		return
	}
	cover("accepted")
	enc, err2 := EncodeValue(v)
	assert(err2 == nil, "decoded-value-encodes")
	if err2 != nil {
		return
	}
	assert(uint64(len(enc)) == src.Pos(), "reencode-length-equals-consumed")
	if uint64(len(enc)) == src.Pos() {
		assert(bytesEq(enc, buf[:src.Pos()]), "reencode-reproduces-consumed-bytes")
	}
}

// Harness_C25_entrypoints: the two prefixed entry points never panic and agree with DecodeValue.
func Harness_C25_entrypoints() {
	n := nondetRange("n", param("maxlen")+1)
	buf := nondetBytes("buf", n)
	v, err := DeserializeCallParam(buf)
	if err == nil {
		assert(len(buf) >= 1 && buf[0] == 0, "callparam-version-prefix")
		w, err2 := DecodeValue(common.NewZeroCopySource(buf[1:]))
		assert(err2 == nil, "callparam-agrees-with-decodevalue")
		if err2 == nil {
			assert(c25Same(v, w, 0), "callparam-same-value")
		}
	}
	_, err3 := parseNotify(buf)
	if err3 == nil {
		assert(len(buf) >= 4 && buf[0] == 'e' && buf[1] == 'v' && buf[2] == 't' && buf[3] == 0, "notify-prefix")
	}
	cover("returned")
}

// Harness_C25_int: every integer in [-2^127, 2^127-1] round-trips; integers outside are refused.
func Harness_C25_int() {
	v := nondetBig("int", 129)
	lim := new(big.Int).Lsh(big.NewInt(1), 127)
	inRange := bigLe(new(big.Int).Neg(lim), v) && bigLt(v, lim)
	enc, err := EncodeValue(v)
	assert((err == nil) == inRange, "int-encodes-iff-in-i128-range")
	if err != nil {
		return
	}
	src := common.NewZeroCopySource(enc)
	dec, err2 := DecodeValue(src)
	assert(err2 == nil && src.Len() == 0, "int-encoding-decodes")
	if err2 != nil {
		return
	}
	y, ok := dec.(*big.Int)
	assert(ok, "int-decodes-to-int")
	if ok {
		assert(bigEq(v, y), "int-roundtrip")
	}
}
