package connect_controller

import (
	"net"
	"time"

	"github.com/ontio/ontology/p2pserver/common"
	p2p "github.com/ontio/ontology/p2pserver/net/protocol"
	"github.com/ontio/ontology/p2pserver/peer"
)

// C36: peer connection limits hold under concurrent connection attempts.
// Threads are concurrent inbound accepts (and closes); the schedule is a symbolic input. A step is one
// mutex-protected section of the real code, exactly where AcceptConnect releases the controller's lock:
// beforeHandshakeCheck | (handshake) afterHandshakeCheck | savePeer | Close->removePeer.

type c36Addr string

func (a c36Addr) Network() string { return "tcp" }
func (a c36Addr) String() string  { return string(a) }

type c36Conn struct{ remote c36Addr }

func (c *c36Conn) Read(b []byte) (int, error)         { return 0, nil }
func (c *c36Conn) Write(b []byte) (int, error)        { return len(b), nil }
func (c *c36Conn) Close() error                       { return nil }
func (c *c36Conn) LocalAddr() net.Addr                { return c36Addr("127.0.0.1:1") }
func (c *c36Conn) RemoteAddr() net.Addr               { return c.remote }
func (c *c36Conn) SetDeadline(t time.Time) error      { return nil }
func (c *c36Conn) SetReadDeadline(t time.Time) error  { return nil }
func (c *c36Conn) SetWriteDeadline(t time.Time) error { return nil }

type c36Logger struct{}

func (c36Logger) Debug(a ...interface{})                 {}
func (c36Logger) Info(a ...interface{})                  {}
func (c36Logger) Warn(a ...interface{})                  {}
func (c36Logger) Error(a ...interface{})                 {}
func (c36Logger) Fatal(a ...interface{})                 {}
func (c36Logger) Debugf(format string, a ...interface{}) {}
func (c36Logger) Infof(format string, a ...interface{})  {}
func (c36Logger) Warnf(format string, a ...interface{})  {}
func (c36Logger) Errorf(format string, a ...interface{}) {}
func (c36Logger) Fatalf(format string, a ...interface{}) {}

type c36Thread struct {
	addr  string
	conn  *c36Conn
	info  *peer.PeerInfo
	pc    int // next step
	saved net.Conn
	close bool
	seen  int // number of saves/closes by anyone when this thread's check passed
}

var c36Addrs = [][]string{
	{"10.0.0.1:1001", "10.0.0.2:1001"},
	{"10.0.0.1:1002", "10.0.0.2:1002"},
	{"10.0.0.1:1003", "10.0.0.2:1003"},
}

func Harness_C36_inbound_limits() {
	opt := ConnCtrlOption{
		MaxConnInBound:      uint(1 + nondetRange("maxin", 2)),
		MaxConnInBoundPerIP: uint(1 + nondetRange("maxperip", 2)),
		MaxConnOutBound:     1,
		ReservedPeers:       p2p.AllAddrFilter(),
	}
	self := &common.PeerKeyId{Id: common.PseudoPeerIdFromUint64(999)}
	cc := NewConnectController(peer.NewPeerInfo(self.Id, 1, 1, true, 0, 20338, 0, "v", "127.0.0.1:20338"), self, opt, c36Logger{})
	T := param("threads")
	ths := make([]*c36Thread, T)
	for i := 0; i < T; i++ {
		a := c36Addrs[i][nondetRange("ip", 2)]
		ths[i] = &c36Thread{addr: a, conn: &c36Conn{remote: c36Addr(a)},
			info:  peer.NewPeerInfo(common.PseudoPeerIdFromUint64(uint64(i+1)), 1, 1, true, 0, uint16(2000+i), 0, "v", a),
			close: nondetBool("closes")}
	}
	events := 0     // saves and closes so far
	stale := false // some thread saved after another thread changed the tables since its own check
	for {
		var runnable []int
		for i, t := range ths {
			if t.pc >= 0 {
				runnable = append(runnable, i)
			}
		}
		if len(runnable) == 0 {
			break
		}
		t := ths[runnable[nondetRange("schedule", len(runnable))]]
		switch t.pc {
		case 0:
			if cc.beforeHandshakeCheck(t.addr, INBOUND_INDEX) != nil {
				t.pc = -1
			} else {
				t.pc = 1
				t.seen = events
			}
		case 1:
			if cc.afterHandshakeCheck(t.info, t.addr) != nil {
				t.pc = -1
			} else {
				t.pc = 2
			}
		case 2:
			if events != t.seen {
				stale = true
			}
			events++
			t.saved = cc.savePeer(t.conn, t.info, INBOUND_INDEX)
			if t.close {
				t.pc = 3
			} else {
				t.pc = -1
			}
		case 3:
			events++
			t.saved.Close()
			t.pc = -1
		}
		// the limits hold after every step. Known finding: the limit checks (beforeHandshakeCheck) and the
		// table update (savePeer) are separate critical sections, so a save that follows a check which another
		// thread's save has meanwhile invalidated can exceed the limits. Region = such a stale save happened.
		inKF := knownFinding("C36-check-then-act-between-check-and-save", stale)
		_ = inKF
		assert(cc.InboundsCount() <= opt.MaxConnInBound, "inbound-connections-within-limit")
		assert(cc.getInboundCountWithIp("10.0.0.1") <= opt.MaxConnInBoundPerIP, "per-ip-connections-within-limit")
		assert(cc.getInboundCountWithIp("10.0.0.2") <= opt.MaxConnInBoundPerIP, "per-ip-connections-within-limit")
	}
}

// ---- sequential histories: inbound accepts, outbound dials (including dial-backs of the same peer) and
// closes, one after the other; limits are compared with the harness's own record of open connections ----

var c36IPs = []string{"10.0.0.1", "10.0.0.2", "2001:db8::1"}

func c36HostPort(ip int, port int) string {
	p := []string{"1001", "1002", "1003", "1004", "1005"}[port]
	if ip == 2 {
		return "[" + c36IPs[ip] + "]:" + p
	}
	return c36IPs[ip] + ":" + p
}

type c36Open struct {
	conn    net.Conn
	inbound bool
	ip      int
	open    bool
}

func Harness_C36_sequential() {
	opt := ConnCtrlOption{
		MaxConnInBound:      uint(1 + nondetRange("maxin", 2)),
		MaxConnInBoundPerIP: uint(1 + nondetRange("maxperip", 2)),
		MaxConnOutBound:     uint(1 + nondetRange("maxout", 2)),
		ReservedPeers:       p2p.AllAddrFilter(),
	}
	self := &common.PeerKeyId{Id: common.PseudoPeerIdFromUint64(999)}
	cc := NewConnectController(peer.NewPeerInfo(self.Id, 1, 1, true, 0, 20338, 0, "v", "127.0.0.1:20338"), self, opt, c36Logger{})
	K := param("conns")
	var opens []*c36Open
	for i := 0; i < K; i++ {
		// optionally close one earlier connection first
		if len(opens) > 0 && nondetBool("closefirst") {
			o := opens[nondetRange("closewhich", len(opens))]
			if o.open {
				o.conn.Close()
				o.open = false
			}
		}
		ip := nondetRange("ip", param("ips"))
		inbound := nondetBool("inbound")
		pid := uint64(1 + nondetRange("peerid", 2))
		addr := c36HostPort(ip, i)
		conn := &c36Conn{remote: c36Addr(addr)}
		info := peer.NewPeerInfo(common.PseudoPeerIdFromUint64(pid), 1, 1, true, 0, uint16(2000+i), 0, "v", addr)
		index := OUTBOUND_INDEX
		if inbound {
			index = INBOUND_INDEX
		}
		if cc.beforeHandshakeCheck(addr, index) != nil {
			continue
		}
		if cc.afterHandshakeCheck(info, addr) != nil {
			continue
		}
		wrapped := cc.savePeer(conn, info, index)
		opens = append(opens, &c36Open{conn: wrapped, inbound: inbound, ip: ip, open: true})
		// limits against the harness's own record
		in, out := uint(0), uint(0)
		var perIP [3]uint
		for _, o := range opens {
			if !o.open {
				continue
			}
			if o.inbound {
				in++
				perIP[o.ip]++
			} else {
				out++
			}
		}
		assert(in <= opt.MaxConnInBound, "seq-inbound-within-limit")
		assert(out <= opt.MaxConnOutBound, "seq-outbound-within-limit")
		for k := 0; k < 3; k++ {
			assert(perIP[k] <= opt.MaxConnInBoundPerIP, "seq-per-ip-within-limit")
		}
		assert(cc.InboundsCount() == in && cc.OutboundsCount() == out, "seq-controller-counts-match-open-connections")
	}
}
