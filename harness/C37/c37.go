package kbucket

import (
	"bytes"

	ocommon "github.com/ontio/ontology/common"
	"github.com/ontio/ontology/p2pserver/common"
)

// c37Dist is the reference XOR distance, computed from the serialized ids (independent of PeerId.Distance).
func c37Dist(a, b common.PeerId) []byte {
	sa, sb := ocommon.NewZeroCopySink(nil), ocommon.NewZeroCopySink(nil)
	a.Serialization(sa)
	b.Serialization(sb)
	x, y := sa.Bytes(), sb.Bytes()
	d := make([]byte, len(x))
	for i := range x {
		d[i] = x[i] ^ y[i]
	}
	return d
}

// C37: the DHT routing table stays structurally valid under any sequence of updates and removals.

func c37ID(tag string) common.PeerId {
	// ids vary in their first two bytes: common-prefix lengths 0..16 with the (all-zero) local id, and
	// equality with it, are all reachable
	// remote peers never carry the local id (the handshake rejects a connection to oneself), so the
	// common-prefix length stays below 8*idbytes and the table has at most that many buckets
	if param("idbytes") == 3 {
		// first and last byte vary: peers may differ only in the least significant byte of the id
		var raw [20]byte
		raw[0] = nondetU8(tag)
		raw[19] = nondetU8(tag + ".last")
		assume(raw[0] != 0)
		var id common.PeerId
		if err := id.Deserialization(ocommon.NewZeroCopySource(raw[:])); err != nil {
			panic(err)
		}
		return id
	}
	if param("idbytes") == 1 {
		v := nondetU8(tag)
		assume(v != 0)
		return common.PseudoPeerIdFromUint64(uint64(v))
	}
	v := nondetU16(tag)
	assume(v != 0)
	return common.PseudoPeerIdFromUint64(uint64(v))
}

func Harness_C37_routing_table() {
	local := common.PseudoPeerIdFromUint64(0)
	rt := NewRoutingTable(param("bucketsize"), local)
	ops := param("ops")
	for i := 0; i < ops; i++ {
		id := c37ID("id")
		if nondetBool("remove") {
			rt.Remove(id)
		} else {
			_ = rt.Update(id, "addr")
		}
	}
	// structural invariants
	all := rt.ListPeers()
	for i := range all {
		for j := 0; j < i; j++ {
			assert(all[i].ID != all[j].ID, "every-peer-appears-once")
		}
	}
	last := len(rt.Buckets) - 1
	for bi, b := range rt.Buckets {
		assert(b.Len() <= rt.bucketsize, "bucket-within-size")
		for _, p := range b.Peers() {
			cpl := common.CommonPrefixLen(p.ID, local)
			want := cpl
			if want > last {
				want = last
			}
			assert(bi == want, "peer-in-bucket-of-its-common-prefix-length")
		}
	}
	// nearest-peer query
	target := c37ID("target")
	k := 1 + nondetRange("k", param("maxk"))
	near := rt.NearestPeers(target, k)
	assert(len(near) <= k, "nearest-at-most-k")
	for i := range near {
		for j := 0; j < i; j++ {
			assert(near[i].ID != near[j].ID, "nearest-distinct")
		}
		if i > 0 {
			da, db := c37Dist(target, near[i-1].ID), c37Dist(target, near[i].ID)
			assert(bytes.Compare(da, db) <= 0, "nearest-sorted-by-xor-distance")
		}
	}
	if param("withfind") == 0 {
		return
	}
	// Find agrees with membership
	probe := c37ID("probe")
	_, found := rt.Find(probe)
	member := false
	for _, p := range all {
		member = or(member, p.ID == probe)
	}
	if found {
		assert(member, "found-peer-is-a-member")
	}
}

// Harness_C37_lastbyte: the same invariants with ids that vary in their first and last byte (spec idbytes=3),
// so peers that differ only in the least significant id byte are covered.
func Harness_C37_lastbyte() { Harness_C37_routing_table() }
