package kbucket

import (
	"bytes"

	"github.com/ontio/ontology/p2pserver/common"
)

// C37: the DHT routing table stays structurally valid under any sequence of updates and removals.

func c37ID(tag string) common.PeerId {
	// ids vary in their first two bytes: common-prefix lengths 0..16 with the (all-zero) local id, and
	// equality with it, are all reachable
	// remote peers never carry the local id (the handshake rejects a connection to oneself), so the
	// common-prefix length stays below 8*idbytes and the table has at most that many buckets
	if param("idbytes") == 1 {
		v := nondetU8(tag)
		assume(v != 0)
		return common.PseudoPeerIdFromUint64(uint64(v))
	}
	v := nondetU16(tag)
	assume(v != 0)
	return common.PseudoPeerIdFromUint64(uint64(v))
}

func Harness_C37_routing_table() {
	local := common.PseudoPeerIdFromUint64(0)
	rt := NewRoutingTable(param("bucketsize"), local)
	ops := param("ops")
	for i := 0; i < ops; i++ {
		id := c37ID("id")
		if nondetBool("remove") {
			rt.Remove(id)
		} else {
			_ = rt.Update(id, "addr")
		}
	}
	// structural invariants
	all := rt.ListPeers()
	for i := range all {
		for j := 0; j < i; j++ {
			assert(all[i].ID != all[j].ID, "every-peer-appears-once")
		}
	}
	last := len(rt.Buckets) - 1
	for bi, b := range rt.Buckets {
		assert(b.Len() <= rt.bucketsize, "bucket-within-size")
		for _, p := range b.Peers() {
			cpl := common.CommonPrefixLen(p.ID, local)
			want := cpl
			if want > last {
				want = last
			}
			assert(bi == want, "peer-in-bucket-of-its-common-prefix-length")
		}
	}
	// nearest-peer query
	target := c37ID("target")
	k := 1 + nondetRange("k", param("maxk"))
	near := rt.NearestPeers(target, k)
	assert(len(near) <= k, "nearest-at-most-k")
	for i := range near {
		for j := 0; j < i; j++ {
			assert(near[i].ID != near[j].ID, "nearest-distinct")
		}
		if i > 0 {
			da, db := target.Distance(near[i-1].ID), target.Distance(near[i].ID)
			assert(bytes.Compare(da[:], db[:]) <= 0, "nearest-sorted-by-xor-distance")
		}
	}
	if param("withfind") == 0 {
		return
	}
	// Find agrees with membership
	probe := c37ID("probe")
	_, found := rt.Find(probe)
	member := false
	for _, p := range all {
		member = or(member, p.ID == probe)
	}
	if found {
		assert(member, "found-peer-is-a-member")
	}
}
