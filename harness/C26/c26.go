package merkle

import (
	"github.com/ontio/ontology/common"
)

// C26: the block-root merkle tree gives verifiable inclusion and consistency proofs.
// Leaves are 32-byte values with two symbolic bytes each; sha256 is an ideal hash.

func c26Leaf(tag string) common.Uint256 {
	var l common.Uint256
	l[0] = nondetU8(tag + ".0")
	l[1] = nondetU8(tag + ".1")
	return l
}

// c26Sym: an arbitrary "other" 32-byte value; three symbolic bytes (first, second, last) are enough to
// differ from any leaf or digest while keeping the solver's terms small.
func c26Sym(tag string) common.Uint256 {
	var l common.Uint256
	l[0] = nondetU8(tag + ".0")
	l[1] = nondetU8(tag + ".1")
	l[31] = nondetU8(tag + ".31")
	return l
}

// Harness_C26_tree: after each append the incremental root equals the root of the full tree; inclusion proofs
// of a chosen leaf verify against every later tree size; altered leaf / proof element / root are rejected;
// consistency proofs verify between two sizes; marshal/unmarshal preserves size and root.
func Harness_C26_tree() {
	n := 1 + nondetRange("n", param("maxn"))
	leaves := make([]common.Uint256, n)
	for i := range leaves {
		leaves[i] = c26Leaf("leaf")
	}
	store := NewMemHashStore()
	tree := NewTree(0, nil, store)
	roots := make([]common.Uint256, n+1)
	roots[0] = tree.Root()
	for i := 0; i < n; i++ {
		tree.AppendHash(leaves[i])
		roots[i+1] = tree.Root()
		full := TreeHasher{}.HashFullTreeWithLeafHash(leaves[:i+1])
		assert(roots[i+1] == full, "incremental-root-equals-full-tree-root")
		assert(tree.TreeSize() == uint32(i+1), "tree-size")
	}
	ver := NewMerkleVerifier()
	m := nondetRange("m", n)
	sz := m + 1 + nondetRange("size", n-m) // tree size in (m, n]
	proof, err := tree.InclusionProof(uint32(m), uint32(sz))
	assert(err == nil, "inclusion-proof-available")
	if err != nil {
		return
	}
	assert(ver.VerifyLeafHashInclusion(leaves[m], uint32(m), proof, roots[sz], uint32(sz)) == nil, "inclusion-proof-verifies")
	// altered leaf
	other := c26Sym("otherleaf")
	if other != leaves[m] {
		assert(ver.VerifyLeafHashInclusion(other, uint32(m), proof, roots[sz], uint32(sz)) != nil, "altered-leaf-rejected")
	}
	// altered root
	oroot := c26Sym("otherroot")
	if oroot != roots[sz] {
		assert(ver.VerifyLeafHashInclusion(leaves[m], uint32(m), proof, oroot, uint32(sz)) != nil, "altered-root-rejected")
	}
	// altered proof element
	if len(proof) > 0 {
		j := nondetRange("pj", len(proof))
		alt := append([]common.Uint256{}, proof...)
		alt[j] = c26Sym("otherproof")
		if alt[j] != proof[j] {
			assert(ver.VerifyLeafHashInclusion(leaves[m], uint32(m), alt, roots[sz], uint32(sz)) != nil, "altered-proof-element-rejected")
		}
		// truncated / extended proofs
		assert(ver.VerifyLeafHashInclusion(leaves[m], uint32(m), proof[:len(proof)-1], roots[sz], uint32(sz)) != nil, "truncated-proof-rejected")
	}
	ext := append(append([]common.Uint256{}, proof...), c26Sym("extra"))
	assert(ver.VerifyLeafHashInclusion(leaves[m], uint32(m), ext, roots[sz], uint32(sz)) != nil, "extended-proof-rejected")
	// consistency between sizes k <= sz
	k := 1 + nondetRange("k", sz)
	cproof := tree.ConsistencyProof(uint32(k), uint32(sz))
	assert(ver.VerifyConsistency(uint32(k), uint32(sz), roots[k], roots[sz], cproof) == nil, "consistency-proof-verifies")
	if k < sz {
		// a proof with a spare hash appended, or with its last hash missing, is not a proof
		cext := append(append([]common.Uint256{}, cproof...), c26Sym("cextra"))
		assert(ver.VerifyConsistency(uint32(k), uint32(sz), roots[k], roots[sz], cext) != nil, "extended-consistency-proof-rejected")
		if len(cproof) > 0 {
			assert(ver.VerifyConsistency(uint32(k), uint32(sz), roots[k], roots[sz], cproof[:len(cproof)-1]) != nil, "truncated-consistency-proof-rejected")
		}
		badOld := c26Sym("badold")
		if badOld != roots[k] && badOld != roots[sz] {
			assert(ver.VerifyConsistency(uint32(k), uint32(sz), badOld, roots[sz], cproof) != nil, "consistency-wrong-old-root-rejected")
		}
	}
	// persistence of the compact form
	buf, _ := tree.Marshal()
	t2 := NewTree(0, nil, nil)
	uerr := t2.UnMarshal(buf)
	assert(uerr == nil, "unmarshal-ok")
	assert(t2.TreeSize() == tree.TreeSize(), "unmarshal-size")
	assert(t2.Root() == tree.Root(), "unmarshal-root")
	// reloading into a tree object that was already in use (other content, root already queried)
	t3 := NewTree(0, nil, nil)
	t3.AppendHash(c26Leaf("otherleaf0"))
	_ = t3.Root()
	assert(t3.UnMarshal(buf) == nil, "unmarshal-into-used-tree-ok")
	assert(t3.TreeSize() == tree.TreeSize(), "unmarshal-into-used-tree-size")
	assert(t3.Root() == tree.Root(), "unmarshal-into-used-tree-root")
}

// Harness_C26_index: with pairwise distinct leaves, a proof for index m does not verify for another index.
func Harness_C26_index() {
	n := 1 + nondetRange("n", param("maxn"))
	leaves := make([]common.Uint256, n)
	for i := range leaves {
		leaves[i] = c26Leaf("leaf")
		for j := 0; j < i; j++ {
			assume(leaves[i] != leaves[j])
		}
	}
	tree := NewTree(0, nil, NewMemHashStore())
	for i := 0; i < n; i++ {
		tree.AppendHash(leaves[i])
	}
	ver := NewMerkleVerifier()
	m := nondetRange("m", n)
	o := nondetRange("o", n+2) // any other index, including the out-of-range ones n and n+1
	if o == m {
		return
	}
	proof, err := tree.InclusionProof(uint32(m), uint32(n))
	assert(err == nil, "inclusion-proof-available")
	assert(ver.VerifyLeafHashInclusion(leaves[m], uint32(o), proof, tree.Root(), uint32(n)) != nil, "altered-index-rejected")
}
