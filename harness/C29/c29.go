package vbft

import (
	vconfig "github.com/ontio/ontology/consensus/vbft/config"
)

// C29: every round selects C+1 proposers and at least 2C+1 distinct endorsers and 2C+1 distinct committers,
// all members of the configuration, for every VRF seed and every position table over the members.

func c29Distinct(xs []uint32) bool {
	ok := true
	for i := range xs {
		for j := 0; j < i; j++ {
			ok = and(ok, xs[i] != xs[j])
		}
	}
	return ok
}

func c29Members(xs []uint32, n int) bool {
	ok := true
	for _, x := range xs {
		ok = and(ok, and(x >= 1, x <= uint32(n)))
	}
	return ok
}

func Harness_C29_participants() {
	N, C, L := param("N"), param("C"), param("L")
	chain := &vconfig.ChainConfig{N: uint32(N), C: uint32(C)}
	for i := 1; i <= N; i++ {
		chain.Peers = append(chain.Peers, &vconfig.PeerConfig{Index: uint32(i)})
	}
	for i := 0; i < L; i++ {
		e := nondetU32("pos")
		assume(e >= 1 && e <= uint32(N)) // every slot belongs to a member
		chain.PosTable = append(chain.PosTable, e)
	}
	cfg := &BlockParticipantConfig{BlockNum: 1, ChainConfig: chain}
	copy(cfg.Vrf[:], nondetBytes("vrf", (L+7)/8+1))
	p, e, c := calcParticipantPeers(cfg, chain)
	cover("returned")
	assert(len(p) == C+1, "c-plus-one-proposers")
	assert(len(e) >= 2*C+1, "at-least-2c-plus-1-endorsers")
	assert(len(c) >= 2*C+1, "at-least-2c-plus-1-committers")
	assert(c29Distinct(p), "proposers-distinct")
	assert(c29Distinct(e), "endorsers-distinct")
	assert(c29Distinct(c), "committers-distinct")
	assert(c29Members(p, N), "proposers-are-members")
	assert(c29Members(e, N), "endorsers-are-members")
	assert(c29Members(c, N), "committers-are-members")
	// determinism: a second evaluation on the same inputs gives the same sets
	p2, e2, c2 := calcParticipantPeers(cfg, chain)
	same := len(p) == len(p2) && len(e) == len(e2) && len(c) == len(c2)
	assert(same, "deterministic-sizes")
	if same {
		eq := true
		for i := range p {
			eq = and(eq, p[i] == p2[i])
		}
		for i := range e {
			eq = and(eq, e[i] == e2[i])
		}
		for i := range c {
			eq = and(eq, c[i] == c2[i])
		}
		assert(eq, "deterministic-selection")
	}
}

// Harness_C29_long_table: position tables longer than the 512-draw cap, with the all-zero seed (every draw
// hits slot 0, so the cap is reached with one distinct peer and the sets are back-filled from the peer list).
func Harness_C29_long_table() {
	N, C, L := param("N"), param("C"), param("LL")
	chain := &vconfig.ChainConfig{N: uint32(N), C: uint32(C)}
	for i := 1; i <= N; i++ {
		chain.Peers = append(chain.Peers, &vconfig.PeerConfig{Index: uint32(i)})
	}
	first := nondetU32("pos0")
	assume(first >= 1 && first <= uint32(N))
	chain.PosTable = append(chain.PosTable, first)
	for i := 1; i < L; i++ {
		chain.PosTable = append(chain.PosTable, uint32(1+i%N)) // never drawn by the all-zero seed
	}
	cfg := &BlockParticipantConfig{BlockNum: 1, ChainConfig: chain}
	p, e, c := calcParticipantPeers(cfg, chain)
	cover("returned")
	assert(len(p) == C+1, "long-c-plus-one-proposers")
	assert(len(e) >= 2*C+1, "long-at-least-2c-plus-1-endorsers")
	assert(len(c) >= 2*C+1, "long-at-least-2c-plus-1-committers")
	assert(c29Distinct(p) && c29Distinct(e) && c29Distinct(c), "long-distinct")
	assert(c29Members(p, N) && c29Members(e, N) && c29Members(c, N), "long-members")
}
