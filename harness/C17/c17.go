package validation

import (
	"github.com/ontio/ontology-crypto/keypair"
	"github.com/ontio/ontology/common"
	"github.com/ontio/ontology/core/program"
	"github.com/ontio/ontology/core/types"
)

// C17: the signer accounts contract code sees are a function of the transaction bytes alone and equal the
// signer set the validator established: the validated path (SignedAddr set by checkTransactionSignatures)
// and the raw path (GetSignatureAddresses on a freshly decoded, unvalidated copy - what a syncing node
// uses) must agree as SETS. Keys are ideal; canonicity of a key blob is NOT assumed and Ethereum-type keys
// are allowed.

func c17SetEq(a, b []common.Address) bool {
	sub := func(x, y []common.Address) bool {
		all := true
		for _, p := range x {
			in := false
			for _, q := range y {
				in = or(in, p == q)
			}
			all = and(all, in)
		}
		return all
	}
	return and(sub(a, b), sub(b, a))
}

// c17Canonical: does every verification script equal the script the node's own builder produces for the
// parsed keys (canonical key encodings, sorted keys)?
func c17Canonical(tx *types.Transaction) (canonical bool, anyEth bool) {
	canonical = true
	for i := range tx.Sigs {
		info, err := program.GetProgramInfo(tx.Sigs[i].Verify)
		if err != nil {
			return false, false
		}
		for _, k := range info.PubKeys {
			if _, e := keypair.GetEthereumPubKey(k); e == nil {
				anyEth = true
			}
		}
		var rebuilt []byte
		if len(info.PubKeys) == 1 {
			rebuilt = program.ProgramFromPubKey(info.PubKeys[0])
		} else {
			rebuilt, err = program.ProgramFromMultiPubKey(append([]keypair.PublicKey{}, info.PubKeys...), int(info.M))
			if err != nil {
				return false, anyEth
			}
		}
		same := len(rebuilt) == len(tx.Sigs[i].Verify) && bytesEq(rebuilt, tx.Sigs[i].Verify)
		canonical = and(canonical, same)
	}
	return canonical, anyEth
}

func Harness_C17_same_signers_on_every_node() {
	raw, _, _ := c16BuildTx(param("maxsets"), param("maxkeys"))
	validated, err := types.TransactionFromRawBytes(raw)
	assert(err == nil, "built-transaction-decodes")
	if err != nil {
		return
	}
	if checkTransactionSignatures(validated) != nil {
		return
	}
	cover("accepted")
	canonical, anyEth := c17Canonical(validated)
	kf1 := knownFinding("C17-ethereum-key-address-differs", anyEth)
	kf2 := false
	if !kf1 {
		kf2 = knownFinding("C17-noncanonical-script-address-differs", !canonical)
	}
	_ = kf2
	// the same bytes on a node that did not run the validator
	unvalidated, err2 := types.TransactionFromRawBytes(append([]byte{}, raw...))
	assert(err2 == nil, "second-decode-ok")
	if err2 != nil {
		return
	}
	if len(validated.SignedAddr) < len(validated.Sigs) {
		cover("several-witnesses-one-account")
	}
	established := append([]common.Address{}, validated.SignedAddr...)
	a := validated.GetSignatureAddresses()
	b := unvalidated.GetSignatureAddresses()
	// what contract code sees on the validating node is exactly the set the validator established
	assert(c17SetEq(a, established), "visible-signers-are-the-validator-established-set")
	assert(c17SetEq(a, b), "validated-and-raw-signer-sets-equal")
}

// Harness_C17_two_witnesses: the same claim for transactions with two signature sets (e.g. the same signer
// listed twice), with its own smaller key bound (see spec.json).
func Harness_C17_two_witnesses() { Harness_C17_same_signers_on_every_node() }
