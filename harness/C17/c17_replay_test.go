package validation

// Native demonstrations (real keys and signatures) of the two known findings of C17: the signer set the
// validator establishes differs from the one derived from the raw scripts by a node that did not run it.

import (
	"crypto/elliptic"
	"fmt"
	"testing"

	ethcrypto "github.com/ethereum/go-ethereum/crypto"
	"github.com/ontio/ontology-crypto/ec"
	"github.com/ontio/ontology-crypto/keypair"
	s "github.com/ontio/ontology-crypto/signature"
	"github.com/ontio/ontology/account"
	"github.com/ontio/ontology/common"
	"github.com/ontio/ontology/core/payload"
	"github.com/ontio/ontology/core/signature"
	"github.com/ontio/ontology/core/types"
)

func c17Tx(t *testing.T, ver []byte, payer common.Address, sign func(hash []byte) []byte) []byte {
	mtx := &types.MutableTransaction{TxType: types.InvokeNeo, Nonce: 1, GasLimit: 20000, Payer: payer,
		Payload: &payload.InvokeCode{Code: []byte{0x51}}}
	unsignedTx, err := mtx.IntoImmutable()
	if err != nil {
		t.Fatal(err)
	}
	hash := unsignedTx.Hash()
	sig := sign(hash[:])
	inv := append([]byte{byte(len(sig))}, sig...)
	raw := unsignedTx.ToArray()
	raw = raw[:len(raw)-1]
	sink := common.NewZeroCopySink(nil)
	sink.WriteBytes(raw)
	sink.WriteVarUint(1)
	sink.WriteVarBytes(inv)
	sink.WriteVarBytes(ver)
	return sink.Bytes()
}

func c17Compare(t *testing.T, raw []byte, what string) {
	validated, err := types.TransactionFromRawBytes(append([]byte{}, raw...))
	if err != nil {
		t.Fatal(err)
	}
	if err := checkTransactionSignatures(validated); err != nil {
		fmt.Println("VERIF-REPLAY: OK not accepted:", err)
		return
	}
	unvalidated, _ := types.TransactionFromRawBytes(append([]byte{}, raw...))
	a, b := validated.GetSignatureAddresses(), unvalidated.GetSignatureAddresses()
	same := len(a) == len(b)
	for i := range a {
		if !same || a[i] != b[i] {
			same = false
		}
	}
	if !same {
		fmt.Printf("VERIF-REPLAY: ASSERT-FAILED validated-and-raw-signer-sets-equal (%s: validated %x raw %x)\n", what, a, b)
	} else {
		fmt.Println("VERIF-REPLAY: OK same signer sets")
	}
}

func TestC17EthereumKey(t *testing.T) {
	ethPriv, err := ethcrypto.GenerateKey()
	if err != nil {
		t.Fatal(err)
	}
	pri, pub := keypair.FromEthereumPrivateKey(ethPriv)
	kb := keypair.SerializePublicKey(pub)
	ver := append([]byte{byte(len(kb))}, kb...)
	ver = append(ver, 0xac)
	payer := types.AddressFromPubKey(pub) // the account the validator derives for this key
	raw := c17Tx(t, ver, payer, func(hash []byte) []byte {
		sg, err := s.Sign(s.KECCAK256WithECDSA, pri, hash, nil)
		if err != nil {
			t.Fatal(err)
		}
		b, err := s.Serialize(sg)
		if err != nil {
			t.Fatal(err)
		}
		return b
	})
	c17Compare(t, raw, "ethereum-type key")
}

func TestC17UncompressedKey(t *testing.T) {
	a := account.NewAccount("")
	pk := a.PublicKey.(*ec.PublicKey)
	// the uncompressed SEC encoding of the same P-256 key (accepted by keypair.DeserializePublicKey)
	kb := elliptic.Marshal(pk.Curve, pk.X, pk.Y)
	if _, err := keypair.DeserializePublicKey(kb); err != nil {
		t.Skip("uncompressed encoding not accepted:", err)
	}
	ver := append([]byte{byte(len(kb))}, kb...)
	ver = append(ver, 0xac)
	payer := types.AddressFromPubKey(a.PublicKey)
	raw := c17Tx(t, ver, payer, func(hash []byte) []byte {
		b, err := signature.Sign(a, hash)
		if err != nil {
			t.Fatal(err)
		}
		return b
	})
	c17Compare(t, raw, "uncompressed encoding of a P-256 key")
}
