package merkle

import (
	"github.com/ontio/ontology/common"
)

// C27: cross-chain merkle paths prove exactly the included values.

// Harness_C27_member: a path generated for a member value proves it against the list's root.
func Harness_C27_member() {
	n := 1 + nondetRange("n", param("maxn"))
	vals := make([][]byte, n)
	hashes := make([]common.Uint256, n)
	for i := 0; i < n; i++ {
		vals[i] = nondetBytes("val", 1+nondetRange("vlen", 2))
		hashes[i] = HashLeaf(vals[i])
	}
	root := TreeHasher{}.HashFullTreeWithLeafHash(append([]common.Uint256{}, hashes...))
	k := nondetRange("k", n)
	path, err := MerkleLeafPath(vals[k], append([]common.Uint256{}, hashes...))
	assert(err == nil, "path-generated-for-member")
	if err != nil {
		return
	}
	got, perr := MerkleProve(path, root)
	assert(perr == nil, "member-path-proves")
	if perr == nil {
		assert(len(got) == len(vals[k]) && bytesEq(got, vals[k]), "proved-value-is-the-member")
	}
	// a non-member gets no path
	nv := nondetBytes("nonmember", 1+nondetRange("nlen", 2))
	nh := HashLeaf(nv)
	isMember := false
	for i := 0; i < n; i++ {
		if nh == hashes[i] {
			isMember = true
		}
	}
	if !isMember {
		_, e2 := MerkleLeafPath(nv, append([]common.Uint256{}, hashes...))
		assert(e2 != nil, "no-path-for-non-member")
	}
}

// Harness_C27_sound: no path (arbitrary bytes of the path format) proves, against the list's root, a value
// whose leaf hash is not in the list.
func Harness_C27_sound() {
	n := 1 + nondetRange("n", param("maxn"))
	hashes := make([]common.Uint256, n)
	for i := 0; i < n; i++ {
		// list entries are leaf hashes of arbitrary state values (as in the ledger's cross-states list)
		hashes[i] = HashLeaf(nondetBytes("w", 1+nondetRange("wlen", 2)))
	}
	root := TreeHasher{}.HashFullTreeWithLeafHash(append([]common.Uint256{}, hashes...))
	vlen := 1 + nondetRange("vlen", 2)
	steps := nondetRange("steps", param("maxsteps")+1)
	path := []byte{byte(vlen)}
	val := nondetBytes("v", vlen)
	path = append(path, val...)
	for s := 0; s < steps; s++ {
		path = append(path, nondetU8("dir"))
		path = append(path, nondetBytes("sib", 32)...)
	}
	got, err := MerkleProve(path, root)
	if err != nil {
		return
	}
	cover("proved")
	lh := HashLeaf(got)
	member := false
	for i := 0; i < n; i++ {
		if lh == hashes[i] {
			member = true
		}
	}
	assert(member, "proved-value-leaf-hash-is-in-the-list")
}

// Harness_C27_member_long: the same completeness claim at the var-bytes length boundary of the path format
// (values of 252..254 bytes, where the length prefix switches from one byte to 0xfd + two bytes).
func Harness_C27_member_long() {
	n := 2
	vals := make([][]byte, n)
	hashes := make([]common.Uint256, n)
	for i := 0; i < n; i++ {
		vals[i] = nondetBytes("val", param("minlen")+nondetRange("vlen", 3))
		hashes[i] = HashLeaf(vals[i])
	}
	root := TreeHasher{}.HashFullTreeWithLeafHash(append([]common.Uint256{}, hashes...))
	k := nondetRange("k", n)
	path, err := MerkleLeafPath(vals[k], append([]common.Uint256{}, hashes...))
	assert(err == nil, "long-path-generated-for-member")
	if err != nil {
		return
	}
	got, perr := MerkleProve(path, root)
	assert(perr == nil, "long-member-path-proves")
	if perr == nil {
		assert(len(got) == len(vals[k]) && bytesEq(got, vals[k]), "long-proved-value-is-the-member")
	}
}
