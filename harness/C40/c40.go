package ledgerstore

import (
	"github.com/ontio/ontology-crypto/keypair"
	s "github.com/ontio/ontology-crypto/signature"
	"github.com/ontio/ontology/common"
	"github.com/ontio/ontology/common/config"
	"github.com/ontio/ontology/core/types"
)

// C40: chain queries agree with each other for every stored block, before and after a restart.
// Blocks with transactions are committed through the real saveBlock on the LevelDB model (harness/C01);
// every read path of the ledger store is then compared with the committed block.

func c40Tx(tag string) *types.Transaction {
	raw := []byte{0, byte(types.InvokeNeo)}
	raw = append(raw, nondetBytes(tag+".nonce", 4)...)
	raw = append(raw, make([]byte, 8+8)...)
	raw = append(raw, nondetBytes(tag+".payer", 2)...)
	raw = append(raw, make([]byte, 18)...)
	raw = append(raw, 1, nondetU8(tag+".code"), 0, 0) // code, attributes, no signatures
	tx, err := types.TransactionFromRawBytes(raw)
	assert(err == nil, "c40-built-transaction-decodes")
	return tx
}

type c40Committed struct {
	block *types.Block
	hash  common.Uint256
	txs   []common.Uint256
}

func c40Check(ls *LedgerStoreImp, cs []c40Committed, phase string) {
	for _, c := range cs {
		height := c.block.Header.Height
		assert(ls.GetBlockHash(height) == c.hash, phase+"-hash-by-height")
		b1, err := ls.GetBlockByHeight(height)
		assert(err == nil && b1 != nil, phase+"-block-by-height-found")
		b2, err2 := ls.GetBlockByHash(c.hash)
		assert(err2 == nil && b2 != nil, phase+"-block-by-hash-found")
		hd, err3 := ls.GetHeaderByHash(c.hash)
		assert(err3 == nil && hd != nil, phase+"-header-by-hash-found")
		if err != nil || err2 != nil || err3 != nil || b1 == nil || b2 == nil || hd == nil {
			continue
		}
		assert(b1.Hash() == c.hash && b2.Hash() == c.hash && hd.Hash() == c.hash, phase+"-all-lookups-return-the-committed-block")
		assert(b1.Header.Height == height && hd.Height == height && b1.Header.Timestamp == c.block.Header.Timestamp, phase+"-header-fields")
		assert(len(b1.Transactions) == len(c.txs) && len(b2.Transactions) == len(c.txs), phase+"-transaction-count")
		if len(b1.Transactions) == len(c.txs) {
			for i := range c.txs {
				assert(b1.Transactions[i].Hash() == c.txs[i], phase+"-transactions-in-order")
			}
		}
		ok, cerr := ls.IsContainBlock(c.hash)
		assert(cerr == nil && ok, phase+"-contains-block")
		for i, th := range c.txs {
			tx, at, terr := ls.GetTransaction(th)
			assert(terr == nil && tx != nil, phase+"-transaction-by-hash-found")
			if terr == nil && tx != nil {
				assert(at == height, phase+"-transaction-recorded-height")
				assert(tx.Hash() == th && tx.Nonce == c.block.Transactions[i].Nonce, phase+"-transaction-content")
			}
			has, herr := ls.IsContainTransaction(th)
			assert(herr == nil && has, phase+"-contains-transaction")
		}
	}
	top := cs[len(cs)-1]
	assert(ls.GetCurrentBlockHeight() == top.block.Header.Height && ls.GetCurrentBlockHash() == top.hash, phase+"-current-block")
	assert(ls.GetCurrentHeaderHeight() == top.block.Header.Height && ls.GetCurrentHeaderHash() == top.hash, phase+"-current-header")
}

func Harness_C40_queries_agree() {
	c01DBs = nil
	c01 = &c01Model{left: 100}
	node := c01NewNode(false, 0)
	assert(node.open() == nil, "c40-open")
	h := uint32(param("h"))
	maxtx := param("maxtx")
	var prev common.Uint256
	var cs []c40Committed
	var seen []*types.Transaction
	for i := uint32(0); i <= h; i++ {
		var r common.Uint256
		b := c01MkBlock(node.ls, i, r, prev)
		ntx := nondetRange("ntx", maxtx+1)
		var hashes []common.Uint256
		for j := 0; j < ntx; j++ {
			tx := c40Tx("tx")
			for _, o := range seen {
				assume(o.Hash() != tx.Hash()) // a transaction is on chain at most once
			}
			seen = append(seen, tx)
			b.Transactions = append(b.Transactions, tx)
			hashes = append(hashes, tx.Hash())
		}
		b.RebuildMerkleRoot()
		if i > 0 {
			b.Header.BlockRoot = node.ls.GetBlockRootWithNewTxRoots(i, []common.Uint256{b.Header.TransactionsRoot})
		}
		prev = b.Hash()
		assert(node.ls.saveBlock(b, nil, common.Uint256{}) == nil, "c40-commits")
		cs = append(cs, c40Committed{b, prev, hashes})
	}
	c40Check(node.ls, cs, "live")
	// a height that was never committed is not found
	nb, _ := node.ls.GetBlockByHeight(h + 1)
	assert(nb == nil, "live-uncommitted-height-not-found")
	// restart
	assert(node.open() == nil && node.ls.init() == nil, "c40-reopen")
	c40Check(node.ls, cs, "reopened")
}

// Harness_C40_height_keys: records indexed by height do not collide for ANY two distinct 32-bit heights
// (the chains above are short; here the heights are solver variables): block hash by height, bloom data by
// height, cross states and state roots by height, event lists by height.
func Harness_C40_height_keys() {
	c01DBs = nil
	c01 = &c01Model{left: 100}
	node := c01NewNode(false, 0)
	assert(node.open() == nil, "c40k-open")
	h1, h2 := nondetU32("h1"), nondetU32("h2")
	assume(h1 != h2)
	var a, b common.Uint256
	copy(a[:], nondetBytes("hash1", 32))
	copy(b[:], nondetBytes("hash2", 32))
	bs, ss, es := node.ls.blockStore, node.ls.stateStore, node.ls.eventStore
	bs.NewBatch()
	bs.SaveBlockHash(h1, a)
	bs.SaveBlockHash(h2, b)
	assert(bs.CommitTo() == nil, "c40k-commit")
	g1, e1 := bs.GetBlockHash(h1)
	g2, e2 := bs.GetBlockHash(h2)
	assert(e1 == nil && e2 == nil && g1 == a && g2 == b, "hash-by-height-distinct-heights-do-not-collide")
	ss.NewBatch()
	assert(ss.SaveCrossStates(h1, []common.Uint256{a}) == nil && ss.SaveCrossStates(h2, []common.Uint256{b, b}) == nil, "c40k-save-cross")
	assert(ss.CommitTo() == nil, "c40k-commit-state")
	c1, ce1 := ss.GetCrossStates(h1)
	c2, ce2 := ss.GetCrossStates(h2)
	assert(ce1 == nil && ce2 == nil && len(c1) == 1 && len(c2) == 2 && (len(c1) != 1 || c1[0] == a), "cross-states-by-height-do-not-collide")
	es.NewBatch()
	es.SaveEventNotifyByBlock(h1, []common.Uint256{a})
	es.SaveEventNotifyByBlock(h2, []common.Uint256{b, b})
	assert(es.CommitTo() == nil, "c40k-commit-event")
	v1, _ := node.ev.get(genEventNotifyByBlockKey(h1))
	v2, _ := node.ev.get(genEventNotifyByBlockKey(h2))
	assert(len(v1) == 4+32 && len(v2) == 4+64, "event-lists-by-height-do-not-collide")
}

// Harness_C40_header_then_block: header sync runs ahead of block sync - a valid header for height h+1 is
// indexed through AddHeader, then a (different) valid block is committed at that height through AddBlock;
// every query for h+1 must answer with the committed block.
func Harness_C40_header_then_block() {
	config.DefConfig.Genesis.ConsensusType = "solo"
	c01DBs = nil
	c01 = &c01Model{left: 100}
	key := c39Key("bookkeeper")
	next, err := types.AddressFromBookkeepers([]keypair.PublicKey{key})
	assume(err == nil)
	node := c01NewNode(false, 0)
	assert(node.open() == nil, "c40h-open")
	var prev common.Uint256
	var cs []c40Committed
	var tip *types.Header
	for i := uint32(0); i <= 1; i++ {
		b := c01MkBlock(node.ls, i, common.Uint256{}, prev)
		b.Header.NextBookkeeper = next
		prev = b.Hash()
		tip = b.Header
		assert(node.ls.saveBlock(b, nil, common.Uint256{}) == nil, "c40h-history")
		cs = append(cs, c40Committed{b, prev, nil})
	}
	mk := func(ts uint32) *types.Block {
		hdr := &types.Header{Height: 2, PrevBlockHash: prev, Timestamp: ts, NextBookkeeper: next,
			Bookkeepers: []keypair.PublicKey{key}}
		hdr.BlockRoot = node.ls.GetBlockRootWithNewTxRoots(2, []common.Uint256{hdr.TransactionsRoot})
		blk := &types.Block{Header: hdr}
		hash := blk.Hash()
		blob := nondetBytes("sig", 4)
		so, e := s.Deserialize(blob)
		assume(e == nil)
		assume(s.Verify(key, hash[:], so))
		hdr.SigData = [][]byte{blob}
		return blk
	}
	t1 := nondetU32("header.timestamp")
	t2 := nondetU32("block.timestamp")
	assume(t1 > tip.Timestamp && t2 > tip.Timestamp)
	seen := mk(t1)
	if nondetBool("header-first") {
		assert(node.ls.AddHeader(seen.Header) == nil, "c40h-header-accepted")
	}
	blk := mk(t2)
	assert(node.ls.AddBlock(blk, nil, common.Uint256{}) == nil, "c40h-block-accepted")
	cs = append(cs, c40Committed{blk, blk.Hash(), nil})
	c40Check(node.ls, cs, "synced")
	assert(node.open() == nil && node.ls.init() == nil, "c40h-reopen")
	c40Check(node.ls, cs, "synced-reopened")
}
