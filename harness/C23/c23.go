package program

import (
	"github.com/ontio/ontology-crypto/keypair"
	"github.com/ontio/ontology/common"
	"github.com/ontio/ontology/vm/neovm"
)

// C23: signature scripts parse back to their keys and give order-free addresses.
// Public keys are abstract identities (see engine/sym/crypto.go): a key is created by decoding a symbolic
// blob assumed valid; distinct blobs may or may not denote the same key.

func c23Key(tag string) keypair.PublicKey {
	k, err := keypair.DeserializePublicKey(nondetBytes(tag, 4))
	assume(err == nil)
	return k
}

func c23Keys(n int) []keypair.PublicKey {
	ks := make([]keypair.PublicKey, 0, n)
	for i := 0; i < n; i++ {
		k := c23Key("key")
		for _, o := range ks {
			assume(!keypair.ComparePublicKey(o, k)) // a key set: pairwise distinct
		}
		ks = append(ks, k)
	}
	return ks
}

func c23Contains(ks []keypair.PublicKey, k keypair.PublicKey) bool {
	found := false
	for _, o := range ks {
		found = or(found, keypair.ComparePublicKey(o, k))
	}
	return found
}

// Harness_C23_single: a single-key script parses back to that key with threshold 1.
func Harness_C23_single() {
	k := c23Key("key")
	prog := ProgramFromPubKey(k)
	info, err := GetProgramInfo(prog)
	assert(err == nil, "single-key-script-parses")
	if err != nil {
		return
	}
	assert(info.M == 1, "single-threshold-one")
	assert(len(info.PubKeys) == 1, "single-one-key")
	assert(keypair.ComparePublicKey(info.PubKeys[0], k), "single-same-key")
	assert(prog[len(prog)-1] == byte(neovm.CHECKSIG), "single-ends-with-checksig")
}

// Harness_C23_multi: m-of-n scripts: built iff 1 <= m <= n, 2 <= n <= 16; parse back to the same key set
// (sorted) and threshold; the script (hence the address) is the same for every ordering of the keys.
func Harness_C23_multi() {
	n := 1 + nondetRange("n", param("maxn"))
	ks := c23Keys(n)
	orig := append([]keypair.PublicKey{}, ks...)
	m := nondetRange("m", n+2)
	prog, err := ProgramFromMultiPubKey(ks, m)
	okParams := 1 <= m && m <= n && n > 1 && n <= 16
	assert((err == nil) == okParams, "multi-built-iff-params-valid")
	if err != nil {
		return
	}
	info, perr := GetProgramInfo(prog)
	assert(perr == nil, "multi-script-parses")
	if perr != nil {
		return
	}
	assert(int(info.M) == m, "multi-threshold-preserved")
	assert(len(info.PubKeys) == n, "multi-key-count-preserved")
	for _, k := range orig {
		assert(c23Contains(info.PubKeys, k), "multi-every-key-present")
	}
	// another ordering of the same keys gives the same script and address
	perm := append([]keypair.PublicKey{}, orig...)
	for i := 0; i < n-1; i++ {
		j := i + nondetRange("perm", n-i)
		perm[i], perm[j] = perm[j], perm[i]
	}
	prog2, err2 := ProgramFromMultiPubKey(perm, m)
	assert(err2 == nil, "multi-permuted-builds")
	if err2 == nil {
		assert(len(prog) == len(prog2), "multi-order-free-length")
		if len(prog) == len(prog2) {
			assert(bytesEq(prog, prog2), "multi-order-free-script")
		}
		assert(common.AddressFromVmCode(prog) == common.AddressFromVmCode(prog2), "multi-order-free-address")
	}
}

// Harness_C23_toomany: 17 keys are rejected by the builder.
func Harness_C23_toomany() {
	ks := c23Keys(17)
	_, err := ProgramFromMultiPubKey(ks, 1+nondetRange("m", 17))
	assert(err != nil, "seventeen-keys-rejected")
}

// Harness_C23_bytes: arbitrary scripts never panic the parser; an accepted script has a well-formed shape.
func Harness_C23_bytes() {
	n := nondetRange("n", param("maxlen")+1)
	prog := nondetBytes("prog", n)
	info, err := GetProgramInfo(prog)
	cover("parser-returned")
	if err != nil {
		return
	}
	cover("accepted")
	last := prog[len(prog)-1]
	assert(last == byte(neovm.CHECKSIG) || last == byte(neovm.CHECKMULTISIG), "accepted-ends-with-check-opcode")
	assert(info.M >= 1, "accepted-threshold-at-least-one")
	assert(int(info.M) <= len(info.PubKeys), "accepted-threshold-at-most-n")
	if last == byte(neovm.CHECKMULTISIG) {
		assert(len(info.PubKeys) >= 2 && len(info.PubKeys) <= 16, "accepted-multisig-key-count")
	} else {
		assert(len(info.PubKeys) == 1 && info.M == 1, "accepted-single-shape")
	}
	_, perr := GetParamInfo(prog)
	_ = perr
}
