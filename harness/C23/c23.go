package program

import (
	"github.com/ontio/ontology-crypto/keypair"
	"github.com/ontio/ontology/common"
	"github.com/ontio/ontology/vm/neovm"
)

// C23: signature scripts parse back to their keys and give order-free addresses.
// Public keys are abstract identities (see engine/sym/crypto.go): a key is created by decoding a symbolic
// blob assumed valid; distinct blobs may or may not denote the same key.

// c23Blob is a symbolic 4-byte key encoding in the engine; natively (replay) the encoding of a fresh real key.
func c23Blob(tag string) []byte {
	b := nondetBytes(tag, 4)
	if !engineOnly() {
		_, pub, _ := keypair.GenerateKeyPair(keypair.PK_ECDSA, keypair.P256)
		return keypair.SerializePublicKey(pub)
	}
	return b
}

func c23Key(tag string) keypair.PublicKey {
	k, err := keypair.DeserializePublicKey(c23Blob(tag))
	assume(err == nil)
	return k
}

func c23Keys(n int) []keypair.PublicKey {
	ks := make([]keypair.PublicKey, 0, n)
	for i := 0; i < n; i++ {
		k := c23Key("key")
		for _, o := range ks {
			assume(!keypair.ComparePublicKey(o, k)) // a key set: pairwise distinct
		}
		ks = append(ks, k)
	}
	return ks
}

func c23Contains(ks []keypair.PublicKey, k keypair.PublicKey) bool {
	found := false
	for _, o := range ks {
		found = or(found, keypair.ComparePublicKey(o, k))
	}
	return found
}

// Harness_C23_single: a single-key script parses back to that key with threshold 1.
func Harness_C23_single() {
	k := c23Key("key")
	prog := ProgramFromPubKey(k)
	info, err := GetProgramInfo(prog)
	assert(err == nil, "single-key-script-parses")
	if err != nil {
		return
	}
	assert(info.M == 1, "single-threshold-one")
	assert(len(info.PubKeys) == 1, "single-one-key")
	assert(keypair.ComparePublicKey(info.PubKeys[0], k), "single-same-key")
	assert(prog[len(prog)-1] == byte(neovm.CHECKSIG), "single-ends-with-checksig")
}

// Harness_C23_multi: m-of-n scripts: built iff 1 <= m <= n, 2 <= n <= 16; parse back to the same key set
// (sorted) and threshold; the script (hence the address) is the same for every ordering of the keys.
func Harness_C23_multi() {
	n := 1 + nondetRange("n", param("maxn"))
	ks := c23Keys(n)
	orig := append([]keypair.PublicKey{}, ks...)
	m := nondetRange("m", n+2)
	prog, err := ProgramFromMultiPubKey(ks, m)
	okParams := 1 <= m && m <= n && n > 1 && n <= 16
	assert((err == nil) == okParams, "multi-built-iff-params-valid")
	if err != nil {
		return
	}
	info, perr := GetProgramInfo(prog)
	assert(perr == nil, "multi-script-parses")
	if perr != nil {
		return
	}
	assert(int(info.M) == m, "multi-threshold-preserved")
	assert(len(info.PubKeys) == n, "multi-key-count-preserved")
	for _, k := range orig {
		assert(c23Contains(info.PubKeys, k), "multi-every-key-present")
	}
	// another ordering of the same keys gives the same script and address
	perm := append([]keypair.PublicKey{}, orig...)
	for i := 0; i < n-1; i++ {
		j := i + nondetRange("perm", n-i)
		perm[i], perm[j] = perm[j], perm[i]
	}
	prog2, err2 := ProgramFromMultiPubKey(perm, m)
	assert(err2 == nil, "multi-permuted-builds")
	if err2 == nil {
		assert(len(prog) == len(prog2), "multi-order-free-length")
		if len(prog) == len(prog2) {
			assert(bytesEq(prog, prog2), "multi-order-free-script")
		}
		assert(common.AddressFromVmCode(prog) == common.AddressFromVmCode(prog2), "multi-order-free-address")
	}
}

// Harness_C23_toomany: 17 keys are rejected by the builder.
func Harness_C23_toomany() {
	ks := c23Keys(17)
	_, err := ProgramFromMultiPubKey(ks, 1+nondetRange("m", 17))
	assert(err != nil, "seventeen-keys-rejected")
}

// Harness_C23_bytes: arbitrary scripts never panic the parser; an accepted script has a well-formed shape.
func Harness_C23_bytes() {
	n := nondetRange("n", param("maxlen")+1)
	prog := nondetBytes("prog", n)
	info, err := GetProgramInfo(prog)
	cover("parser-returned")
	if err != nil {
		return
	}
	cover("accepted")
	last := prog[len(prog)-1]
	assert(last == byte(neovm.CHECKSIG) || last == byte(neovm.CHECKMULTISIG), "accepted-ends-with-check-opcode")
	assert(info.M >= 1, "accepted-threshold-at-least-one")
	assert(int(info.M) <= len(info.PubKeys), "accepted-threshold-at-most-n")
	if last == byte(neovm.CHECKMULTISIG) {
		assert(len(info.PubKeys) >= 2 && len(info.PubKeys) <= 16, "accepted-multisig-key-count")
	} else {
		assert(len(info.PubKeys) == 1 && info.M == 1, "accepted-single-shape")
	}
	_, perr := GetParamInfo(prog)
	_ = perr
}

// ---- boundary harnesses (key counts 14..17) ----

func c23Num(x int) []byte {
	if x == 0 {
		return []byte{byte(neovm.PUSH0)}
	}
	if x <= 16 {
		return []byte{byte(neovm.PUSH1) + byte(x-1)}
	}
	return []byte{1, byte(x)} // PUSHBYTES1 x  (x < 128)
}

// Harness_C23_boundary: a reference-built CHECKMULTISIG script with n in 14..17 valid key blobs and any
// threshold 0..18 is accepted iff 1 <= m <= n <= 16, and then parses to exactly those keys in order.
func Harness_C23_boundary() {
	n := param("minn") + nondetRange("n", 18-param("minn"))
	m := nondetRange("m", 19)
	var keys []keypair.PublicKey
	var s []byte
	s = append(s, c23Num(m)...)
	for i := 0; i < n; i++ {
		blob := c23Blob("blob")
		k, err := keypair.DeserializePublicKey(blob)
		assume(err == nil)
		keys = append(keys, k)
		s = append(s, byte(len(blob)))
		s = append(s, blob...)
	}
	s = append(s, c23Num(n)...)
	s = append(s, byte(neovm.CHECKMULTISIG))
	info, err := GetProgramInfo(s)
	want := 1 <= m && m <= n && n >= 2 && n <= 16
	assert((err == nil) == want, "boundary-accepted-iff-params-valid")
	if err != nil {
		return
	}
	assert(int(info.M) == m, "boundary-threshold")
	assert(len(info.PubKeys) == n, "boundary-key-count")
	if len(info.PubKeys) == n {
		for i := range keys {
			assert(keypair.ComparePublicKey(info.PubKeys[i], keys[i]), "boundary-keys-in-order")
		}
	}
}

// Harness_C23_max: the builder at the largest key counts (keys assumed given in canonical order, see
// spec stub keysort=presorted): built iff valid, and the script parses back to the same keys/threshold.
func Harness_C23_max() {
	n := param("minn") + nondetRange("n", 18-param("minn"))
	ks := c23Keys(n)
	orig := append([]keypair.PublicKey{}, ks...)
	m := nondetRange("m", 19)
	prog, err := ProgramFromMultiPubKey(ks, m)
	okParams := 1 <= m && m <= n && n > 1 && n <= 16
	assert((err == nil) == okParams, "max-built-iff-params-valid")
	if err != nil {
		return
	}
	info, perr := GetProgramInfo(prog)
	assert(perr == nil, "max-script-parses")
	if perr != nil {
		return
	}
	assert(int(info.M) == m, "max-threshold-preserved")
	assert(len(info.PubKeys) == n, "max-key-count-preserved")
	if len(info.PubKeys) == n {
		for i := range orig {
			assert(keypair.ComparePublicKey(info.PubKeys[i], orig[i]), "max-keys-preserved")
		}
	}
}
