package validation

import (
	"errors"

	"github.com/ontio/ontology-crypto/keypair"
	"github.com/ontio/ontology/core/types"
)

// C28: BFT quorum thresholds always intersect in an honest peer.
// The threshold m that the real VerifyBlock hands to VerifyMultiSignature is captured for a bookkeeper list
// of symbolic length n (only the length of the list is observable here).

var c28M, c28N int
var c28Called bool
var c28Stop = errors.New("c28: captured")

// c28Capture replaces signature.VerifyMultiSignature (see spec.json).
func c28Capture(data []byte, keys []keypair.PublicKey, m int, sigs [][]byte) error {
	c28M, c28N, c28Called = m, len(keys), true
	return c28Stop
}

// verifLenOnlyKeys: in the engine a slice of which only the (symbolic) length is observable.
func verifLenOnlyKeys(n int) []keypair.PublicKey { return make([]keypair.PublicKey, n) }

func Harness_C28_verifyblock() {
	n := nondetInt("n")
	assume(n >= 1)
	assume(n <= 1<<31)
	hdr := &types.Header{Height: 1}
	hdr.Bookkeepers = verifLenOnlyKeys(n)
	blk := &types.Block{Header: hdr}
	c28Called = false
	err := VerifyBlock(blk, nil, false)
	assert(err != nil, "stub-stops-verification")
	assert(c28Called, "threshold-reaches-signature-check")
	assert(c28N == n, "all-bookkeepers-passed")
	q := c28M
	assert(q >= 1, "threshold-at-least-one")
	assert(q <= n, "threshold-at-most-n")
	// any two quorums of size q among n peers share at least c+1 peers whenever n >= 3c+1,
	// i.e. at least one peer outside any set of c faulty ones
	c := nondetInt("c")
	assume(c >= 0)
	assume(c <= 1<<31) // keeps 3*c+1 from wrapping
	assume(n >= 3*c+1)
	assert(2*q-n >= c+1, "two-quorums-share-an-honest-peer")
}
