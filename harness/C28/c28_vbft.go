package vbft

// Commit thresholds of the VBFT server for a symbolic consensus size N and a bounded number of
// distinct signers.

func c28CommitMsgs(nEndorsers int, proposer uint32) []*blockCommitMsg {
	m := &blockCommitMsg{Committer: 1000, BlockProposer: proposer, EndorsersSig: map[uint32][]byte{}}
	for i := 0; i < nEndorsers; i++ {
		m.EndorsersSig[uint32(2000+i)] = []byte{1}
	}
	return []*blockCommitMsg{m}
}

func Harness_C28_commit_consensus() {
	e := nondetRange("endorsers", param("maxendorsers")+1)
	N := nondetInt("N")
	C := nondetInt("C")
	assume(N >= 1)
	assume(N <= 1<<31)
	assume(C >= 0)
	assume(C <= 1<<31)
	assume(N >= 3*C+1)
	p, _ := getCommitConsensus(c28CommitMsgs(e, 7), C, N)
	signers := e + 1 // the committer and the claimed endorsers (distinct indices)
	if p == 7 {
		cover("consensus-reported")
		// quorum counted by the code: the signers plus the proposer
		q := signers + 1
		c := nondetInt("c")
		assume(c >= 0)
	assume(c <= 1<<31) // keeps 3*c+1 from wrapping
		assume(N >= 3*c+1)
		assert(2*q-N >= c+1, "commit-quorums-share-an-honest-peer")
	} else {
		// not reported => below the documented threshold N-(N-1)/3
		assert(signers+1 < N-(N-1)/3, "no-consensus-only-below-threshold")
	}
}
