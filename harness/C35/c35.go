package common

import (
	ethcomm "github.com/ethereum/go-ethereum/common"
	"github.com/ontio/ontology/common"
	"github.com/ontio/ontology/common/config"
	"github.com/ontio/ontology/core/ledger"
	"github.com/ontio/ontology/core/store"
	"github.com/ontio/ontology/core/types"
	"github.com/ontio/ontology/smartcontract/storage"
	"github.com/ontio/ontology/validator/increment"
)

// C35: proposed EVM transactions have consecutive nonces and no duplicates.
// The real TXPool (AddTxList, GetTxPool with expiry, CleanCompletedTransactionList, RemoveTxsBelowGasPrice,
// txSortedMap with its nonce heap) and the real IncrementValidator (AddBlock / Verify) are composed the way
// the VBFT proposer composes them (service.go makeProposal): GetTxPool -> Verify with a fresh nonce context.
// The chain is a model: per-sender account nonce and the set of committed hashes.

var c35Senders = []common.Address{{0x01}, {0x02}}
var c35Chain [2]uint64 // account nonces on chain

// stubs (spec.json)
func c35TxHash(tx *types.Transaction) common.Uint256 {
	var h common.Uint256
	h[0] = byte(tx.TxType)
	h[1] = tx.Payer[0]
	h[2], h[3], h[4], h[5] = byte(tx.Nonce), byte(tx.Nonce>>8), byte(tx.Nonce>>16), byte(tx.Nonce>>24)
	for i := 0; i < 8; i++ {
		h[6+i] = byte(tx.GasPrice >> (8 * uint(i)))
	}
	return h
}

type c35Store struct{ store.LedgerStore }

func (c35Store) GetEthAccount(a ethcomm.Address) (*storage.EthAccount, error) { return c35EthAccount(a) }

func c35EthAccount(a ethcomm.Address) (*storage.EthAccount, error) {
	for i, s := range c35Senders {
		if a[0] == s[0] {
			return &storage.EthAccount{Nonce: c35Chain[i]}, nil
		}
	}
	return &storage.EthAccount{}, nil
}

func c35Who(a common.Address) int {
	if a == c35Senders[0] {
		return 0
	}
	return 1
}

func Harness_C35_pool_and_proposer() {
	config.DefConfig.Consensus.MaxTxInBlock = 100
	ledger.DefLedger = &ledger.Ledger{LedgerStore: c35Store{}}
	pool := NewTxPool()
	iv := increment.NewIncrementValidator(3)
	c35Chain = [2]uint64{uint64(nondetRange("chain.nonce.a", 3)), uint64(nondetRange("chain.nonce.b", 2))}
	height := uint32(10)
	iv.AddBlock(&types.Block{Header: &types.Header{Height: height}})
	var onChain []common.Uint256
	steps := param("steps")
	for st := 0; st < steps; st++ {
		switch nondetRange("op", 4) {
		case 0: // a transaction is submitted (it was verified against the chain at the current height)
			who := nondetRange("sender", param("senders"))
			nonce := uint32(nondetRange("nonce", param("maxnonce")+1))
			price := uint64(nondetU8("gasprice")) * 100
			tx := &types.Transaction{TxType: types.EIP155, Payer: c35Senders[who], Nonce: nonce, GasPrice: price}
			if uint64(nonce) < c35Chain[who] {
				continue // the pool actor refuses nonces below the account nonce before they reach the pool
			}
			var old *types.Transaction
			if l := pool.eipTxPool[tx.Payer]; l != nil {
				old = l.Get(uint64(nonce))
			}
			code := pool.AddTxList(&VerifiedTx{Tx: tx, VerifiedHeight: height, Nonce: c35Chain[who]})
			if old != nil && code.Success() {
				assert(tx.GasPrice > old.GasPrice, "replacement-only-with-higher-gas-price")
			}
		case 1: // a block is proposed exactly as makeProposal does, and committed
			validHeight := height
			ctx := map[common.Address]uint64{}
			var block []*types.Transaction
			entries, _ := pool.GetTxPool(true, validHeight)
			for _, e := range entries {
				if iv.Verify(e.Tx, validHeight, ctx) == nil {
					block = append(block, e.Tx)
				}
			}
			// the proposed block: no duplicates, nothing already on chain, consecutive nonces from the account nonce
			expect := c35Chain
			for i, tx := range block {
				for j := 0; j < i; j++ {
					assert(block[j].Hash() != tx.Hash(), "no-duplicate-hash-in-block")
				}
				for _, h := range onChain {
					assert(h != tx.Hash(), "no-transaction-already-on-chain")
				}
				w := c35Who(tx.Payer)
				assert(uint64(tx.Nonce) == expect[w], "consecutive-nonces-from-the-account-nonce")
				expect[w] = uint64(tx.Nonce) + 1
			}
			if len(block) > 0 {
				cover("c35-nonempty-block")
			}
			// commit
			height++
			for _, tx := range block {
				onChain = append(onChain, tx.Hash())
			}
			c35Chain = expect
			iv.AddBlock(&types.Block{Header: &types.Header{Height: height}, Transactions: block})
			pool.CleanCompletedTransactionList(block, height)
		case 2: // another node's proposal is validated the way processProposalMsg does, then committed
			validHeight := height
			ctx := map[common.Address]uint64{}
			n := 1 + nondetRange("foreign.ntx", param("foreignmax"))
			var block []*types.Transaction
			accepted := true
			for i := 0; i < n; i++ {
				tx := &types.Transaction{TxType: types.EIP155, Payer: c35Senders[nondetRange("foreign.sender", param("senders"))],
					Nonce: uint32(nondetRange("foreign.nonce", param("maxnonce")+2)), GasPrice: uint64(nondetRange("foreign.gasprice", 2)) * 100}
				if iv.Verify(tx, validHeight, ctx) != nil {
					accepted = false
					break
				}
				block = append(block, tx)
			}
			if !accepted {
				continue // the proposal is refused, nothing is committed
			}
			expect := c35Chain
			for i, tx := range block {
				for j := 0; j < i; j++ {
					assert(block[j].Hash() != tx.Hash(), "validated-block-no-duplicate-hash")
				}
				for _, h := range onChain {
					assert(h != tx.Hash(), "validated-block-no-transaction-already-on-chain")
				}
				w := c35Who(tx.Payer)
				assert(uint64(tx.Nonce) == expect[w], "validated-block-consecutive-nonces-from-the-account-nonce")
				expect[w] = uint64(tx.Nonce) + 1
			}
			height++
			for _, tx := range block {
				onChain = append(onChain, tx.Hash())
			}
			c35Chain = expect
			iv.AddBlock(&types.Block{Header: &types.Header{Height: height}, Transactions: block})
			pool.CleanCompletedTransactionList(block, height)
		default: // time passes without this node proposing; the minimum gas price may rise
			// (heights only advance with blocks, and the consensus service feeds every sealed block to the
			// incremental validator: idle time is a run of empty blocks sealed by other nodes)
			for k := nondetRange("idle", 3); k > 0; k-- {
				height++
				iv.AddBlock(&types.Block{Header: &types.Header{Height: height}})
			}
			if nondetBool("raise-min-gas") {
				pool.RemoveTxsBelowGasPrice(uint64(nondetU8("mingas")) * 100)
			}
		}
	}
}

// Harness_C35_one_sender: longer histories of a single sender (own bounds in spec.json).
func Harness_C35_one_sender() { Harness_C35_pool_and_proposer() }
