// check runs the solver-based checks of one property and writes its evidence file.
package main

import (
	"crypto/sha1"
	"encoding/json"
	"flag"
	"fmt"
	"os"
	"os/exec"
	"path/filepath"
	"sort"
	"strconv"
	"strings"
	"sync"
	"time"

	"verif/engine/sym"
)

const verifDir = "/verif"

type HarnessSpec struct {
	Entry   string                    `json:"entry"`
	PkgDir  string                    `json:"pkgdir"`
	Files   []string                  `json:"files"`
	Tiers   []string                  `json:"tiers"`
	Replay  string                    `json:"replay"` // "native" (default) | "none" | "custom:<test name>"
	Spec    sym.Spec                  `json:"spec"`
	Params  map[string]map[string]int `json:"params"`  // tier -> name -> value
	TierSpec map[string]json.RawMessage `json:"tier_spec"` // tier -> partial Spec override
	Note    string                    `json:"note"`
	FindingReplays map[string]FindingReplay `json:"finding_replays"` // known-finding id -> native demonstration test
	ExtraDirs []string                `json:"extra_dirs"`
}

type FindingReplay struct {
	File string `json:"file"`
	Test string `json:"test"`
}

type PropSpec struct {
	Property    string        `json:"property"`
	Level       string        `json:"level"`
	Explanation string        `json:"explanation"`
	Assumptions []string      `json:"assumptions"`
	Harnesses   []HarnessSpec `json:"harnesses"`
	Functions   []string      `json:"functions"`
	Outside     []string      `json:"outside_claim"`
}

type KnownFinding struct {
	Property    string `json:"property"`
	ID          string `json:"id"`
	Status      string `json:"status"` // known | fixed
	Description string `json:"description"`
	Witness     string `json:"witness"`
	Commit      string `json:"commit,omitempty"`
	// Labels, when present, restricts the finding to violations of these assertions: a different
	// assertion failing on the same inputs is a different violation and is reported.
	Labels []string `json:"labels,omitempty"`
}

func (k *KnownFinding) covers(label string) bool {
	if len(k.Labels) == 0 {
		return true
	}
	for _, l := range k.Labels {
		if l == label {
			return true
		}
	}
	return false
}

type harnessResult struct {
	h        HarnessSpec
	sh       *sym.Shared
	wall     time.Duration
	funcs    map[string]int
	err      error
	lines    []string
	viol     int
	incon    []string
	replays  int
}

func main() {
	tier := flag.String("tier", "", "quick|thorough")
	replay := flag.String("replay", "", "replay a model file natively")
	only := flag.String("only", "", "run only this harness entry")
	workers := flag.Int("workers", 16, "worker count")
	verbose := flag.Bool("v", false, "verbose")
	flag.Usage = func() { fmt.Fprintln(os.Stderr, "usage: check <PROPERTY> [--tier quick|thorough] [--replay file]") }
	// allow "check C09 --tier quick"
	args := os.Args[1:]
	var prop string
	var rest []string
	for _, a := range args {
		if prop == "" && !strings.HasPrefix(a, "-") {
			prop = a
			continue
		}
		rest = append(rest, a)
	}
	flag.CommandLine.Parse(rest)
	if prop == "" {
		flag.Usage()
		os.Exit(2)
	}
	if *tier == "" {
		*tier = os.Getenv("VERIF_TIER")
	}
	if *tier == "" {
		*tier = "quick"
	}
	seed := 0
	if s := os.Getenv("VERIF_SEED"); s != "" {
		seed, _ = strconv.Atoi(s)
	}
	start := time.Now()
	ps, err := loadPropSpec(prop)
	if err != nil {
		fmt.Println("INCONCLUSIVE property=" + prop + " reason=" + err.Error())
		os.Exit(3)
	}
	if *replay != "" {
		os.Exit(replayFile(ps, *replay))
	}
	known := loadKnown(prop)

	// select harnesses for the tier
	var hs []HarnessSpec
	for _, h := range ps.Harnesses {
		if *only != "" && h.Entry != *only {
			continue
		}
		ok := len(h.Tiers) == 0
		for _, t := range h.Tiers {
			if t == *tier {
				ok = true
			}
		}
		if ok {
			hs = append(hs, h)
		}
	}
	if len(hs) == 0 {
		fmt.Println("INCONCLUSIVE property=" + prop + " reason=no harness for tier " + *tier)
		os.Exit(3)
	}
	// one program for all harnesses of the property
	files := map[string]string{}
	dirset := map[string]bool{}
	for _, h := range hs {
		for _, f := range h.Files {
			files[filepath.Join(verifDir, "harness", prop, f)] = h.PkgDir
		}
		dirset[h.PkgDir] = true
		for _, d := range h.ExtraDirs {
			dirset[d] = true
		}
	}
	var dirs []string
	for d := range dirset {
		dirs = append(dirs, d)
	}
	sort.Strings(dirs)
	ov, err := sym.BuildOverlay(files, filepath.Join(verifDir, "harness/api/zz_verif_api.go.tmpl"))
	if err != nil {
		fmt.Println("INCONCLUSIVE property=" + prop + " reason=overlay: " + err.Error())
		os.Exit(3)
	}
	t0 := time.Now()
	prog, err := sym.Load(dirs, ov)
	if err != nil {
		fmt.Println("INCONCLUSIVE property=" + prop + " reason=load: " + strings.ReplaceAll(err.Error(), "\n", " | "))
		os.Exit(3)
	}
	loadTime := time.Since(t0)
	if *verbose {
		fmt.Printf("loaded %d packages in %v\n", len(prog.Pkgs), loadTime)
	}

	var results []*harnessResult
	exit := 0
	for _, h := range hs {
		r := runHarness(prog, ps, h, *tier, *workers, known, *verbose)
		results = append(results, r)
	}
	// report
	var outLines []string
	totalViol := 0
	var incon []string
	knownSeen := map[string]bool{}
	for _, r := range results {
		if r.err != nil {
			incon = append(incon, r.h.Entry+": "+r.err.Error())
			continue
		}
		for _, v := range r.sh.Violations {
			path := writeReplay(prop, r.h, v, *tier)
			confirmed, note := confirmNatively(ps, r.h, path, v)
			// violations inside a known-finding region of a stub-based harness: run the finding's native
			// demonstration (real keys / real storage) instead of the model replay
			for _, reg := range v.Regions {
				if fr, ok := r.h.FindingReplays[reg]; ok && known[reg] != nil && known[reg].covers(v.Label) {
					confirmed, note = runFindingReplay(ps.Property, r.h, fr)
				}
			}
			r.replays++
			if *verbose || os.Getenv("VERIF_LIST_REGIONS") != "" {
				fmt.Printf("violation-record harness=%s label=%q regions=%v\n", r.h.Entry, v.Label, v.Regions)
			}
			allKnown := len(v.Regions) > 0
			for _, reg := range v.Regions {
				if known[reg] == nil || known[reg].Status != "known" || !known[reg].covers(v.Label) {
					allKnown = false
				}
			}
			switch {
			case !confirmed:
				incon = append(incon, fmt.Sprintf("%s: model for %q did not reproduce natively (%s) replay=%s", r.h.Entry, v.Label, note, path))
			case allKnown:
				for _, reg := range v.Regions {
					if !knownSeen[reg] {
						knownSeen[reg] = true
						outLines = append(outLines, fmt.Sprintf("KNOWN-FINDING: property=%s %s: %s [%s; replay=%s]", prop, reg, known[reg].Description, v.Label, path))
					}
				}
			default:
				totalViol++
				outLines = append(outLines, fmt.Sprintf("VIOLATION property=%s replay=%s", prop, path))
				outLines = append(outLines, fmt.Sprintf("  harness=%s assertion=%q %s%s", r.h.Entry, v.Label, note, v.Where))
			}
		}
		for _, s := range r.sh.SortedIncon() {
			incon = append(incon, r.h.Entry+": "+s)
		}
		// vacuity: every assert label seen must have been reached; covers reported
		if len(r.sh.AssertSeen) == 0 && r.sh.Stats.PathsDone > 0 && len(r.sh.Violations) == 0 {
			incon = append(incon, r.h.Entry+": vacuous (no assertion reached)")
		}
	}
	for _, l := range outLines {
		fmt.Println(l)
	}
	if totalViol > 0 {
		exit = 1
	} else if len(incon) > 0 {
		exit = 3
		for i, s := range incon {
			if i >= 12 {
				fmt.Printf("  … %d more\n", len(incon)-i)
				break
			}
			fmt.Println("INCONCLUSIVE property=" + prop + " reason=" + s)
		}
	}
	writeEvidence(ps, *tier, seed, results, time.Since(start), totalViol, incon, loadTime, outLines)
	if exit == 0 {
		var p, o, q int64
		for _, r := range results {
			p += r.sh.Stats.PathsDone
			o += r.sh.Stats.Obligations
			q += r.sh.Stats.FeasQueries
		}
		fmt.Printf("OK property=%s tier=%s harnesses=%d paths=%d obligations=%d feasibility_queries=%d wall=%.1fs\n", prop, *tier, len(results), p, o, q, time.Since(start).Seconds())
	}
	os.Exit(exit)
}

func loadPropSpec(prop string) (*PropSpec, error) {
	b, err := os.ReadFile(filepath.Join(verifDir, "harness", prop, "spec.json"))
	if err != nil {
		return nil, err
	}
	ps := &PropSpec{}
	if err := json.Unmarshal(b, ps); err != nil {
		return nil, fmt.Errorf("spec.json: %v", err)
	}
	return ps, nil
}

func loadKnown(prop string) map[string]*KnownFinding {
	res := map[string]*KnownFinding{}
	b, err := os.ReadFile(filepath.Join(verifDir, "known_findings.json"))
	if err != nil {
		return res
	}
	var all []KnownFinding
	if json.Unmarshal(b, &all) != nil {
		return res
	}
	for i := range all {
		if all[i].Property == prop {
			res[all[i].ID] = &all[i]
		}
	}
	return res
}

func effectiveSpec(h HarnessSpec, tier string) (*sym.Spec, error) {
	sp := h.Spec // copy
	if raw, ok := h.TierSpec[tier]; ok {
		if err := json.Unmarshal(raw, &sp); err != nil {
			return nil, err
		}
	}
	sp.Entry = h.Entry
	if sp.MaxSeconds == 0 {
		if tier == "quick" {
			sp.MaxSeconds = 900
		} else {
			sp.MaxSeconds = 7200
		}
	}
	sp.Params = map[string]int{}
	for k, v := range h.Params[tier] {
		sp.Params[k] = v
	}
	return &sp, nil
}

func runHarness(prog *sym.Program, ps *PropSpec, h HarnessSpec, tier string, workers int, known map[string]*KnownFinding, verbose bool) *harnessResult {
	r := &harnessResult{h: h}
	t0 := time.Now()
	sp, err := effectiveSpec(h, tier)
	if err != nil {
		r.err = err
		return r
	}
	sp.Pkg = sym.RepoMod + "/" + h.PkgDir
	pkg := prog.Pkgs[sp.Pkg]
	if pkg == nil {
		r.err = fmt.Errorf("package %s not loaded", sp.Pkg)
		return r
	}
	entry := pkg.Func(h.Entry)
	if entry == nil {
		r.err = fmt.Errorf("entry %s not found in %s", h.Entry, sp.Pkg)
		return r
	}
	if sp.Workers > 0 {
		workers = sp.Workers
	}
	sh := sym.NewShared(prog, sp)
	for id, k := range known {
		if k.Status == "known" {
			sh.Known[id] = true
		}
	}
	r.sh = sh
	var wg sync.WaitGroup
	machines := make([]*sym.Machine, workers)
	for i := 0; i < workers; i++ {
		m, err := sym.NewMachine(sh, i)
		if err != nil {
			r.err = err
			return r
		}
		machines[i] = m
	}
	var fatal interface{}
	var fmu sync.Mutex
	for i := 0; i < workers; i++ {
		wg.Add(1)
		go func(m *sym.Machine) {
			defer wg.Done()
			defer func() {
				if x := recover(); x != nil {
					fmu.Lock()
					if fatal == nil {
						fatal = x
					}
					fmu.Unlock()
					sh.Abort()
				}
			}()
			m.Run(entry)
		}(machines[i])
	}
	wg.Wait()
	r.funcs = map[string]int{}
	for _, m := range machines {
		for f, n := range m.FuncsEncoded() {
			r.funcs[f] = n
		}
		m.CollectSolverStats()
		m.Close()
	}
	r.wall = time.Since(t0)
	if fatal != nil {
		r.err = fmt.Errorf("engine failure: %v", fatal)
	}
	if verbose {
		fmt.Printf("[%s] paths=%d done=%d infeasible=%d obligations=%d discharged=%d trivial=%d feasq=%d unknown=%d steps=%d viol=%d wall=%v\n",
			h.Entry, sh.Stats.Paths+1, sh.Stats.PathsDone, sh.Stats.Infeasible, sh.Stats.Obligations, sh.Stats.Discharged, sh.Stats.Trivial,
			sh.Stats.FeasQueries, sh.Stats.Unknown, sh.Stats.Steps, len(sh.Violations), r.wall)
		for _, n := range sh.InitNotes {
			fmt.Println("  init-note:", n)
		}
		for k, n := range sh.Covers {
			fmt.Printf("  cover %s: %d\n", k, n)
		}
		for _, s := range sh.SortedIncon() {
			fmt.Println("  incon:", s)
		}
		for _, v := range sh.Violations {
			fmt.Printf("  violation %q regions=%v model=%v\n", v.Label, v.Regions, v.Model)
		}
	}
	return r
}

func writeReplay(prop string, h HarnessSpec, v *sym.Violation, tier string) string {
	dir := filepath.Join(verifDir, "replay", prop)
	os.MkdirAll(dir, 0o755)
	type rf struct {
		Property string            `json:"property"`
		Entry    string            `json:"entry"`
		Label    string            `json:"label"`
		Tier     string            `json:"tier"`
		Regions  []string          `json:"regions,omitempty"`
		Where    string            `json:"where"`
		PathCond []string          `json:"path_condition"`
		Params   map[string]int    `json:"params,omitempty"`
		Values   []sym.ReplayEntry `json:"values"`
	}
	f := rf{Property: prop, Entry: h.Entry, Label: v.Label, Tier: tier, Regions: v.Regions, Where: v.Where, PathCond: v.PathCond, Values: v.Model, Params: h.Params[tier]}
	b, _ := json.MarshalIndent(f, "", " ")
	sum := sha1.Sum(b)
	path := filepath.Join(dir, fmt.Sprintf("%s-%x.json", h.Entry, sum[:5]))
	os.WriteFile(path, b, 0o644)
	return path
}

// confirmNatively replays a model against the natively compiled code.
func confirmNatively(ps *PropSpec, h HarnessSpec, path string, v *sym.Violation) (bool, string) {
	if strings.HasPrefix(v.Label, "allocation-beyond-limit") {
		return true, "(engine-side observation: the size term of a make() can exceed the limit; see the model for the input) "
	}
	if h.Replay == "none" {
		return true, "(model not natively replayable: harness uses engine stubs) "
	}
	out, err := nativeReplay(ps.Property, h, path)
	if err != nil {
		return false, "native replay failed to run: " + err.Error()
	}
	want := "VERIF-REPLAY: ASSERT-FAILED " + v.Label
	if strings.HasPrefix(v.Label, "panic:") {
		if strings.Contains(out, "VERIF-REPLAY: PANIC") || strings.Contains(out, "panic:") || strings.Contains(out, "fatal error:") {
			return true, "(reproduced natively: panic) "
		}
		return false, "native run did not panic"
	}
	if strings.Contains(out, want) {
		return true, "(reproduced natively) "
	}
	if strings.Contains(out, "fatal error:") || strings.Contains(out, "VERIF-REPLAY: PANIC") {
		return true, "(native run crashed: " + firstLineWith(out, "fatal error:", "VERIF-REPLAY: PANIC") + ") "
	}
	return false, "native outcome: " + firstLineWith(out, "VERIF-OUTCOME", "VERIF-REPLAY")
}

// runFindingReplay runs a native Go test that demonstrates a listed finding against the real code.
func runFindingReplay(prop string, h HarnessSpec, fr FindingReplay) (bool, string) {
	h2 := h // harness files stay available to the demonstration (model types, helpers)
	out, err := nativeTest(prop, h2, map[string]string{filepath.Join(sym.RepoDir, h.PkgDir, "zz_verif_finding_test.go"): filepath.Join(verifDir, "harness", prop, fr.File)}, "^"+fr.Test+"$", "")
	if err != nil {
		return false, "finding demonstration failed to run: " + err.Error()
	}
	if strings.Contains(out, "VERIF-REPLAY: ASSERT-FAILED") {
		return true, "(finding demonstrated natively by " + fr.Test + ") "
	}
	return false, "finding demonstration did not reproduce: " + firstLineWith(out, "VERIF-REPLAY", "FAIL", "ok")
}

func firstLineWith(out string, keys ...string) string {
	for _, l := range strings.Split(out, "\n") {
		for _, k := range keys {
			if strings.Contains(l, k) {
				return strings.TrimSpace(l)
			}
		}
	}
	return "?"
}

// nativeReplay compiles harness + real package natively (go test -overlay) and runs the entry on the model.
func nativeReplay(prop string, h HarnessSpec, replayPath string) (string, error) {
	work := filepath.Join(verifDir, ".work", prop+"-"+h.Entry)
	os.MkdirAll(work, 0o755)
	pkgName := ""
	for _, f := range h.Files {
		if pkgName == "" {
			pkgName = packageClause(filepath.Join(verifDir, "harness", prop, f))
		}
	}
	test := filepath.Join(work, "replay_test.go")
	os.WriteFile(test, []byte(fmt.Sprintf(`package %s

import (
	"fmt"
	"testing"
)

func TestVerifReplay(t *testing.T) {
	out := verifRun(%s)
	fmt.Println("VERIF-OUTCOME: " + out)
}
`, pkgName, h.Entry)), 0o644)
	extra := map[string]string{filepath.Join(sym.RepoDir, h.PkgDir, "zz_verif_replay_test.go"): test}
	return nativeTest(prop, h, extra, "^TestVerifReplay$", replayPath)
}

// nativeTest runs `go test -run pattern` in the harness package with the harness files, the API file, the
// wasm stub and the given extra files overlaid; the package's own tests are neutralised.
func nativeTest(prop string, h HarnessSpec, extra map[string]string, pattern, replayPath string) (string, error) {
	work := filepath.Join(verifDir, ".work", prop+"-"+h.Entry)
	if err := os.MkdirAll(work, 0o755); err != nil {
		return "", err
	}
	defer os.RemoveAll(work)
	repl := map[string]string{}
	for k, v := range extra {
		repl[k] = v
	}
	pkgName := ""
	for _, f := range h.Files {
		real := filepath.Join(verifDir, "harness", prop, f)
		repl[filepath.Join(sym.RepoDir, h.PkgDir, "zz_verif_"+filepath.Base(f))] = real
		if pkgName == "" {
			pkgName = packageClause(real)
		}
	}
	if len(h.Files) > 0 {
		tmpl, err := os.ReadFile(filepath.Join(verifDir, "harness/api/zz_verif_api.go.tmpl"))
		if err != nil {
			return "", err
		}
		api := filepath.Join(work, "api.go")
		os.WriteFile(api, []byte(strings.Replace(string(tmpl), "PKGNAME", pkgName, 1)), 0o644)
		repl[filepath.Join(sym.RepoDir, h.PkgDir, "zz_verif_api.go")] = api
	}
	// neutralise the package's own tests (their TestMain may create files under /repo)
	ents, _ := os.ReadDir(filepath.Join(sym.RepoDir, h.PkgDir))
	for i, e := range ents {
		if strings.HasSuffix(e.Name(), "_test.go") {
			real := filepath.Join(sym.RepoDir, h.PkgDir, e.Name())
			pn := packageClause(real)
			empty := filepath.Join(work, fmt.Sprintf("empty%d.go", i))
			os.WriteFile(empty, []byte("package "+pn+"\n"), 0o644)
			repl[real] = empty
		}
	}
	wasm := filepath.Join(work, "wasmstub.go")
	os.WriteFile(wasm, sym.WasmStubSource(), 0o644)
	repl[filepath.Join(sym.RepoDir, "smartcontract/service/wasmvm/wasmjit_runtime.go")] = wasm
	ovj, _ := json.Marshal(map[string]interface{}{"Replace": repl})
	ovp := filepath.Join(work, "overlay.json")
	os.WriteFile(ovp, ovj, 0o644)
	cmd := exec.Command("go", "test", "-vet=off", "-count=1", "-overlay", ovp, "-run", pattern, "-v", "./"+h.PkgDir)
	cmd.Dir = sym.RepoDir
	cmd.Env = append(os.Environ(), "GOFLAGS=-mod=mod", "GOPROXY=off", "GOSUMDB=off", "GOTOOLCHAIN=local", "VERIF_REPLAY="+replayPath)
	done := make(chan struct{})
	var out []byte
	go func() {
		out, _ = cmd.CombinedOutput()
		close(done)
	}()
	select {
	case <-done:
	case <-time.After(10 * time.Minute):
		cmd.Process.Kill()
		return "", fmt.Errorf("native test timed out")
	}
	s := string(out)
	if strings.Contains(s, "[build failed]") || strings.Contains(s, "[setup failed]") {
		return s, fmt.Errorf("build failed: %s", tail(s, 600))
	}
	return s, nil
}

func tail(s string, n int) string {
	if len(s) > n {
		return s[len(s)-n:]
	}
	return s
}

func packageClause(path string) string {
	b, err := os.ReadFile(path)
	if err != nil {
		return ""
	}
	for _, l := range strings.Split(string(b), "\n") {
		l = strings.TrimSpace(l)
		if strings.HasPrefix(l, "package ") {
			f := strings.Fields(l)
			if len(f) >= 2 {
				return f[1]
			}
		}
	}
	return ""
}

func replayFile(ps *PropSpec, path string) int {
	b, err := os.ReadFile(path)
	if err != nil {
		fmt.Println("cannot read replay file:", err)
		return 2
	}
	var rf struct {
		Entry string `json:"entry"`
		Label string `json:"label"`
	}
	json.Unmarshal(b, &rf)
	for _, h := range ps.Harnesses {
		if h.Entry == rf.Entry {
			out, err := nativeReplay(ps.Property, h, path)
			fmt.Println(out)
			if err != nil {
				fmt.Println("replay error:", err)
				return 2
			}
			if strings.Contains(out, "ASSERT-FAILED") || strings.Contains(out, "VERIF-REPLAY: PANIC") || strings.Contains(out, "fatal error:") {
				fmt.Printf("VIOLATION property=%s replay=%s\n", ps.Property, path)
				return 1
			}
			return 0
		}
	}
	fmt.Println("entry not found:", rf.Entry)
	return 2
}

func writeEvidence(ps *PropSpec, tier string, seed int, results []*harnessResult, wall time.Duration, viol int, incon []string, loadTime time.Duration, lines []string) {
	type hcov struct {
		Entry       string            `json:"entry"`
		Paths       int64             `json:"paths"`
		Infeasible  int64             `json:"infeasible_paths"`
		Obligations int64             `json:"obligations"`
		Discharged  int64             `json:"discharged"`
		Trivial     int64             `json:"syntactically_true"`
		FeasQ       int64             `json:"feasibility_queries"`
		Unknown     int64             `json:"unknown"`
		Steps       int64             `json:"ssa_instructions_executed"`
		MaxDec      int               `json:"max_decisions_on_a_path"`
		Bounds      map[string]string `json:"bounds"`
		Params      map[string]int    `json:"params,omitempty"`
		Stubs       map[string]string `json:"stubs,omitempty"`
		Asserts     map[string]int    `json:"assertion_sites_reached"`
		Covers      map[string]int    `json:"reachability_witnesses,omitempty"`
		SolverS     map[string]float64 `json:"solver_time_s"`
		SolverCalls map[string]int64  `json:"solver_calls"`
		Wall        float64           `json:"wall_s"`
		Note        string            `json:"note,omitempty"`
		Violations  int               `json:"violations"`
		Replays     int               `json:"native_replays"`
		Incon       []string          `json:"inconclusive,omitempty"`
	}
	var hc []hcov
	funcs := map[string]int{}
	var evals, oblig, disch, nontriv, paths, trans int64
	var samples []interface{}
	assum := append([]string{}, ps.Assumptions...)
	for _, r := range results {
		if r.sh == nil {
			continue
		}
		st := r.sh.Stats
		c := hcov{Entry: r.h.Entry, Paths: st.PathsDone, Infeasible: st.Infeasible, Obligations: st.Obligations, Discharged: st.Discharged,
			Trivial: st.Trivial, FeasQ: st.FeasQueries, Unknown: st.Unknown, Steps: st.Steps, MaxDec: st.MaxDecisions,
			Asserts: r.sh.AssertSeen, Covers: r.sh.Covers, SolverS: map[string]float64{}, SolverCalls: st.SolverCalls, Wall: r.wall.Seconds(),
			Note: r.h.Note, Violations: len(r.sh.Violations), Replays: r.replays, Incon: r.sh.SortedIncon()}
		sp, _ := effectiveSpec(r.h, tier)
		if sp != nil {
			c.Bounds = map[string]string{"unwind": fmt.Sprint(orDefault(sp.Unwind, 64)), "maxdepth": fmt.Sprint(orDefault(sp.MaxDepth, 400)),
				"maxalloc": fmt.Sprint(orDefault(sp.MaxAlloc, 64)), "solver_timeout_ms": fmt.Sprint(orDefault(sp.TimeoutMs, 10000))}
			for k, v := range sp.Bounds {
				c.Bounds[k] = v
			}
			c.Params = sp.Params
			c.Stubs = sp.Stubs
			for k, v := range sp.Stubs {
				assum = append(assum, fmt.Sprintf("[%s] stub %s = %s", r.h.Entry, k, v))
			}
			for _, a := range sp.Assumptions {
				assum = append(assum, fmt.Sprintf("[%s] %s", r.h.Entry, a))
			}
		}
		for k, v := range st.SolverTime {
			c.SolverS[k] = v.Seconds()
		}
		hc = append(hc, c)
		for f, n := range r.funcs {
			funcs[f] = n
		}
		evals += st.FeasQueries
		for _, n := range st.SolverCalls {
			evals += n
		}
		oblig += st.Obligations
		disch += st.Discharged
		nontriv += st.Obligations - st.Trivial
		paths += st.PathsDone
		trans += st.Steps
		for _, s := range r.sh.Samples {
			samples = append(samples, map[string]string{"harness": r.h.Entry, "path": s})
		}
	}
	if len(samples) == 0 {
		samples = append(samples, "no completed path")
	}
	var flist []string
	for f, n := range funcs {
		flist = append(flist, fmt.Sprintf("%s (%d SSA instrs)", f, n))
	}
	sort.Strings(flist)
	level := ps.Level
	if level == "" {
		level = "other"
	}
	cov := map[string]interface{}{
		"evaluations":         evals,
		"distinct_nontrivial": nontriv,
		"rule": "evaluations = SMT solver queries of this run (path-feasibility + assertion queries over all back ends); distinct_nontrivial = assertion obligations on distinct feasible paths whose condition was not syntactically true after constant folding (each decided by an unsat/sat verdict over all values of the symbolic inputs on that path)",
		"samples":             samples,
		"explanation":         ps.Explanation,
		"obligations":         oblig,
		"discharged":          disch,
		"states":              paths,
		"transitions":         trans,
		"traces_validated_against_impl": countReplays(results),
		"functions_encoded":   flist,
		"harnesses":           hc,
		"package_load_s":      loadTime.Seconds(),
		"outside_claim":       ps.Outside,
		"inconclusive":        incon,
		"report_lines":        lines,
		"exhaustive":          false,
	}
	ev := map[string]interface{}{
		"property_id": ps.Property,
		"tier":        tier,
		"seed":        seed,
		"level":       level,
		"coverage":    cov,
		"assumptions": assum,
		"wall_s":      wall.Seconds(),
		"violations":  viol,
	}
	b, _ := json.MarshalIndent(ev, "", " ")
	evDir := filepath.Join(verifDir, "evidence")
	if sym.RepoDir != "/repo" {
		evDir = filepath.Join(os.TempDir(), "verif-evidence-alt") // a run against a scratch checkout never rewrites the evidence of /repo
	}
	os.MkdirAll(evDir, 0o755)
	os.WriteFile(filepath.Join(evDir, ps.Property+".json"), b, 0o644)
}

func countReplays(rs []*harnessResult) int {
	n := 0
	for _, r := range rs {
		n += r.replays
	}
	return n
}

func orDefault(v, d int) int {
	if v > 0 {
		return v
	}
	return d
}
