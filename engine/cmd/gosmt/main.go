package main

import (
	"fmt"
	"golang.org/x/tools/go/packages"
	"golang.org/x/tools/go/ssa"
	"golang.org/x/tools/go/ssa/ssautil"
)

func main() {
	cfg := &packages.Config{Mode: packages.LoadAllSyntax, Dir: "/repo"}
	pkgs, err := packages.Load(cfg, "./common")
	if err != nil {
		panic(err)
	}
	prog, _ := ssautil.AllPackages(pkgs, ssa.InstantiateGenerics)
	prog.Build()
	fmt.Println(len(prog.AllPackages()))
}
