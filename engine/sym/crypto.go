package sym

import (
	"fmt"
	"go/types"
	"strconv"

	"golang.org/x/tools/go/ssa"
)

// Ideal ("Dolev-Yao") public keys and signatures.
//
//   - a public key is an abstract identity id (BV64);
//   - DeserializePublicKey(b) = (valid_n(b), id_n(b)) with uninterpreted valid/id per length;
//   - SerializePublicKey(k) = ser(id) (keyBytes bytes) with Deserialize(Serialize(k)) = k and nothing else:
//     a byte string other than ser(id) may also decode to id (the real library accepts several encodings
//     of one key), i.e. canonicity of the input encoding is NOT assumed;
//   - keys are totally ordered by an uninterpreted injective rank (SortPublicKeys);
//   - a signature blob s verifies for exactly one (key, message): signer(s) = id and digest(s) = H(msg).
//
// Every assumption here is listed in the evidence of the harnesses that use it.

var abstractKeyType = types.NewNamed(types.NewTypeName(0, nil, "engineAbstractPublicKey", nil), types.NewStruct(nil, nil), nil)
var abstractSigType = types.NewNamed(types.NewTypeName(0, nil, "engineAbstractSignature", nil), types.NewStruct(nil, nil), nil)

func (m *Machine) keyBytes() int {
	if s, ok := m.Spec.Bounds["key_bytes"]; ok {
		if n, _ := strconv.Atoi(s); n > 0 {
			return n
		}
	}
	return 33
}

func (m *Machine) mkKey(id *Term) Value {
	return IfaceV{T: abstractKeyType, V: OpaqueV{Kind: "pubkey", ID: id}}
}

func (m *Machine) keyID(v Value) *Term {
	iv, ok := v.(IfaceV)
	if !ok || iv.T == nil {
		panic(m.rtPanic("nil", "nil public key"))
	}
	ov, ok := iv.V.(OpaqueV)
	if !ok || ov.Kind != "pubkey" {
		panic(m.unsupported(fmt.Sprintf("concrete public key object (%v) mixed with abstract keys", iv.T)))
	}
	return ov.ID
}

func (m *Machine) packBytes(bs []*Term) *Term {
	x := bs[0]
	for _, b := range bs[1:] {
		x = m.TT.Concat(x, b)
	}
	return x
}

func (m *Machine) serKey(id *Term) []*Term {
	tt := m.TT
	n := m.keyBytes()
	blob := tt.UF("$pk.ser", BV(8*n), id)
	out := make([]*Term, n)
	for i := range out {
		out[i] = tt.Extract(8*(n-i)-1, 8*(n-i-1), blob)
	}
	// Deserialize(Serialize(k)) = k
	m.addPC(tt.UF(fmt.Sprintf("$pk.valid/%d", n), BoolSort, blob), false)
	m.addPC(tt.Eq(tt.UF(fmt.Sprintf("$pk.id/%d", n), BV(64), blob), id), false)
	return out
}

func registerCryptoIntrinsics(m *Machine) {
	I := m.intrinsic
	tt := m.TT
	const kp = "github.com/ontio/ontology-crypto/keypair."
	const sg = "github.com/ontio/ontology-crypto/signature."
	I[kp+"DeserializePublicKey"] = func(m *Machine, fr *frame, a []Value, c *ssa.CallCommon) Value {
		bs := m.bytesOfSlice(a[0].(SliceV))
		if len(bs) == 0 {
			return TupleV{IfaceV{}, m.freshError("empty key")}
		}
		blob := m.packBytes(bs)
		valid := tt.UF(fmt.Sprintf("$pk.valid/%d", len(bs)), BoolSort, blob)
		if !m.Branch(valid) {
			return TupleV{IfaceV{}, m.freshError("invalid key")}
		}
		id := tt.UF(fmt.Sprintf("$pk.id/%d", len(bs)), BV(64), blob)
		return TupleV{m.mkKey(id), IfaceV{}}
	}
	I[kp+"SerializePublicKey"] = func(m *Machine, fr *frame, a []Value, c *ssa.CallCommon) Value {
		return m.sliceFromBytes(m.serKey(m.keyID(a[0])))
	}
	I[kp+"ComparePublicKey"] = func(m *Machine, fr *frame, a []Value, c *ssa.CallCommon) Value {
		return tt.Eq(m.keyID(a[0]), m.keyID(a[1]))
	}
	I[kp+"SortPublicKeys"] = func(m *Machine, fr *frame, a []Value, c *ssa.CallCommon) Value {
		// sorts in place (sort.Sort on the caller's backing array) and returns the same slice
		s := a[0].(SliceV)
		cells := s.cells()
		rank := func(v Value) *Term { return tt.UF("$pk.rank", BV(64), m.keyID(v)) }
		// rank is injective on the keys involved
		for i := range cells {
			for j := i + 1; j < len(cells); j++ {
				ki, kj := m.keyID(cells[i].V), m.keyID(cells[j].V)
				m.addPC(tt.Implies(tt.Eq(rank(cells[i].V), rank(cells[j].V)), tt.Eq(ki, kj)), false)
			}
		}
		if m.stubs["keysort"] == "presorted" {
			// assumption (listed in evidence): the caller passes the keys already in canonical order
			for i := 1; i < len(cells); i++ {
				m.addPC(tt.BvCmp(OBvUlt, rank(cells[i-1].V), rank(cells[i].V)), false)
			}
			return s
		}
		for i := 1; i < len(cells); i++ {
			for j := i; j > 0; j-- {
				x, y := cells[j].V, cells[j-1].V
				if !m.Branch(tt.BvCmp(OBvUlt, rank(x), rank(y))) {
					break
				}
				m.storeCell(cells[j], y)
				m.storeCell(cells[j-1], x)
			}
		}
		return s
	}
	I[kp+"GetEthereumPubKey"] = func(m *Machine, fr *frame, a []Value, c *ssa.CallCommon) Value {
		id := m.keyID(a[0])
		isEth := tt.UF("$pk.iseth", BoolSort, id)
		if m.stubs["ethkeys"] != "symbolic" {
			m.addPC(tt.Not(isEth), false) // assumption: no Ethereum-type keys (listed in evidence)
			return TupleV{PtrV{}, m.freshError("not ethereum key")}
		}
		if !m.Branch(isEth) {
			return TupleV{PtrV{}, m.freshError("not ethereum key")}
		}
		// a real-typed *ec.EthereumPublicKey{&ecdsa.PublicKey{X: id}} carrying the identity in X
		rt := c.Signature().Results().At(0).Type().(*types.Pointer).Elem()
		outer := m.newCell(rt)
		inner := m.newCell(outer.Kids[0].T.(*types.Pointer).Elem())
		bx := m.newCell(m.bigIntType())
		bx.V = BigV{tt.BV2Nat(id)}
		inner.Kids[1].V = PtrV{C: bx}
		outer.Kids[0].V = PtrV{C: inner}
		return TupleV{PtrV{C: outer}, IfaceV{}}
	}
	I["github.com/ethereum/go-ethereum/crypto.PubkeyToAddress"] = func(m *Machine, fr *frame, a []Value, c *ssa.CallCommon) Value {
		pk := a[0].(StructV)
		xp, ok := pk[1].(PtrV)
		if !ok || xp.IsNil() {
			panic(m.unsupported("PubkeyToAddress on a concrete key"))
		}
		idn := m.bigOf(xp)
		id := tt.Int2BV(64, idn)
		var in []*Term
		for i := 7; i >= 0; i-- {
			in = append(in, tt.Extract(8*i+7, 8*i, id))
		}
		out := m.idealHash("ethaddr", 20, in)
		av := make(ArrayV, 20)
		for i, b := range out {
			av[i] = b
		}
		return av
	}
	// go-ethereum keccak helpers (variadic [][]byte): ideal hash of the concatenation
	keccak := func(m *Machine, a []Value) []*Term {
		var in []*Term
		for _, c := range a[0].(SliceV).cells() {
			in = append(in, m.bytesOfSlice(m.loadCell(c).(SliceV))...)
		}
		return m.idealHash("keccak256", 32, in)
	}
	I["github.com/ethereum/go-ethereum/crypto.Keccak256Hash"] = func(m *Machine, fr *frame, a []Value, c *ssa.CallCommon) Value {
		out := keccak(m, a)
		av := make(ArrayV, 32)
		for i, b := range out {
			av[i] = b
		}
		return av
	}
	I["github.com/ethereum/go-ethereum/crypto.Keccak256"] = func(m *Machine, fr *frame, a []Value, c *ssa.CallCommon) Value {
		return m.sliceFromBytes(keccak(m, a))
	}
	// signatures
	I[sg+"Deserialize"] = func(m *Machine, fr *frame, a []Value, c *ssa.CallCommon) Value {
		bs := m.bytesOfSlice(a[0].(SliceV))
		if len(bs) == 0 {
			return TupleV{PtrV{}, m.freshError("empty signature")}
		}
		blob := m.packBytes(bs)
		wf := tt.UF(fmt.Sprintf("$sig.wellformed/%d", len(bs)), BoolSort, blob)
		if !m.Branch(wf) {
			return TupleV{PtrV{}, m.freshError("malformed signature")}
		}
		cell := &Cell{Epoch: m.epoch, V: OpaqueV{Kind: "sig", ID: tt.BVConst(64, uint64(len(bs))), Payload: blob}}
		return TupleV{PtrV{C: cell}, IfaceV{}}
	}
	I[sg+"Verify"] = func(m *Machine, fr *frame, a []Value, c *ssa.CallCommon) Value {
		id := m.keyID(a[0])
		msg := m.bytesOfSlice(a[1].(SliceV))
		sp := a[2].(PtrV)
		if sp.IsNil() {
			return tt.False
		}
		so, ok := sp.C.V.(OpaqueV)
		if !ok || so.Kind != "sig" {
			panic(m.unsupported("signature.Verify on a concrete signature object"))
		}
		blob := so.Payload.(*Term)
		n := blob.S.W / 8
		signer := tt.UF(fmt.Sprintf("$sig.signer/%d", n), BV(64), blob)
		dig := tt.UF(fmt.Sprintf("$sig.digest/%d", n), BV(256), blob)
		md := m.idealHash("sigmsg", 32, msg)
		return tt.And(tt.Eq(signer, id), tt.Eq(dig, m.packBytes(md)))
	}
}
