package sym

import (
	"fmt"
	"go/types"

	"golang.org/x/tools/go/ssa"
)

// Value is any of: *Term, FloatV, StringV, StructV, ArrayV, TupleV, PtrV, SliceV, *MapObj (via MapV), IfaceV, FuncV, BigV, Poison, OpaqueV
type Value interface{}

type FloatV float64

type ComplexV complex128

// StringV is an immutable string: a vector of symbolic bytes of concrete length, or an opaque token.
type StringV struct {
	B      []*Term
	Opaque *Term   // non-nil: an opaque string identified by this id term (contents unknown)
	HexOf  []*Term // non-nil: B is the lower-case hex encoding of these bytes (equality fast path)
	DecOf  *Term   // non-nil: the decimal text of this Int term (contents otherwise unknown), see base58.go
}

type StructV []Value
type ArrayV []Value
type TupleV []Value

// BigV is the value of a math/big.Int (by value): an Int-sorted term.
type BigV struct{ T *Term }

// Poison marks a value the engine could not compute (failed package initialiser).
type Poison struct{ Why string }

// OpaqueV is an abstract object (e.g. an abstract public key) identified by an Int term.
type OpaqueV struct {
	Kind    string
	ID      *Term
	Payload Value
}

// Cell is a unit of addressable memory. Aggregates (struct, array) have Kids; leaves hold V.
type Cell struct {
	V     Value
	Kids  []*Cell
	Epoch int
	T     types.Type
	addr  uint64 // lazily assigned fake address (identity), see cellAddr
}

type symIdx struct {
	cells []*Cell
	idx   *Term // BV64 index, known in range on this path
}

type PtrV struct {
	C   *Cell
	Sym *symIdx
}

func (p PtrV) IsNil() bool { return p.C == nil && p.Sym == nil }

type SliceV struct {
	Arr           *Cell // array cell; nil for nil slice
	Off, Len, Cap int
	SymLen        *Term // non-nil: a slice whose only observable is its (symbolic) length
	Dec           *Term // non-nil (with SymLen): the bytes are the decimal text of this Int term, see base58.go
}

type MapEntry struct {
	K, V Value
}

// MapObj: entries live in Cell.V as []MapEntry (immutable slices, replaced on update) so they are journaled.
type MapObj struct {
	C  *Cell
	KT types.Type
	VT types.Type
}

type MapV struct{ M *MapObj }

type IfaceV struct {
	T types.Type // dynamic type; nil for nil interface
	V Value
}

type FuncV struct {
	Fn      *ssa.Function
	Env     []Value
	Builtin *ssa.Builtin
	// bound method on interface receiver etc. are expressed as closures by go/ssa
}

func (f FuncV) IsNil() bool { return f.Fn == nil && f.Builtin == nil }

// map iterator
type IterV struct {
	IsString bool
	Str      StringV
	Entries  []MapEntry
	Pos      int
}

// ChanV is a channel. The engine is single-threaded: a channel is a bounded FIFO; an operation that would
// block forever in a sequential run (send on a full / receive on an empty channel outside a select with a
// default) is reported as unsupported. C is nil for channels made while goroutines are cut (goAsNoop).
type ChanV struct {
	Nil bool
	C   *Cell // V: chanState
}

type chanState struct {
	items  []Value // immutable: replaced on update so that the cell journal can undo it
	cap    int
	closed bool
}

func isBigInt(t types.Type) bool {
	n, ok := t.(*types.Named)
	if !ok {
		return false
	}
	o := n.Obj()
	return o.Pkg() != nil && o.Pkg().Path() == "math/big" && o.Name() == "Int"
}

func basicSort(b *types.Basic) (Sort, bool, bool) { // sort, signed, ok
	switch b.Kind() {
	case types.Bool, types.UntypedBool:
		return BoolSort, false, true
	case types.Int8:
		return BV(8), true, true
	case types.Int16:
		return BV(16), true, true
	case types.Int32, types.UntypedRune:
		return BV(32), true, true
	case types.Int64, types.Int, types.UntypedInt:
		return BV(64), true, true
	case types.Uint8:
		return BV(8), false, true
	case types.Uint16:
		return BV(16), false, true
	case types.Uint32:
		return BV(32), false, true
	case types.Uint64, types.Uint, types.Uintptr:
		return BV(64), false, true
	}
	return Sort{}, false, false
}

func isSigned(t types.Type) bool {
	if b, ok := t.Underlying().(*types.Basic); ok {
		_, s, _ := basicSort(b)
		return s
	}
	return false
}

func (m *Machine) zero(t types.Type) Value {
	if isBigInt(t) {
		return BigV{m.TT.IntConst64(0)}
	}
	switch u := t.Underlying().(type) {
	case *types.Basic:
		if s, _, ok := basicSort(u); ok {
			if s.K == SBool {
				return m.TT.False
			}
			return m.TT.BVConst(s.W, 0)
		}
		switch u.Kind() {
		case types.Float32, types.Float64, types.UntypedFloat:
			return FloatV(0)
		case types.Complex64, types.Complex128:
			return ComplexV(0)
		case types.String, types.UntypedString:
			return StringV{}
		case types.UnsafePointer:
			return PtrV{}
		case types.UntypedNil:
			return nil
		}
		panic(m.unsupported("zero of basic " + u.String()))
	case *types.Pointer:
		return PtrV{}
	case *types.Slice:
		return SliceV{}
	case *types.Map:
		return MapV{}
	case *types.Chan:
		return ChanV{Nil: true}
	case *types.Signature:
		return FuncV{}
	case *types.Interface:
		return IfaceV{}
	case *types.Struct:
		s := make(StructV, u.NumFields())
		for i := range s {
			s[i] = m.zero(u.Field(i).Type())
		}
		return s
	case *types.Array:
		a := make(ArrayV, u.Len())
		if u.Len() > 0 {
			z := m.zero(u.Elem())
			for i := range a {
				a[i] = z
			}
		}
		return a
	case *types.Tuple:
		tp := make(TupleV, u.Len())
		for i := range tp {
			tp[i] = m.zero(u.At(i).Type())
		}
		return tp
	}
	panic(m.unsupported(fmt.Sprintf("zero of %T %s", t, t)))
}

func (m *Machine) newCell(t types.Type) *Cell {
	c := &Cell{Epoch: m.epoch, T: t}
	if isBigInt(t) {
		c.V = BigV{m.TT.IntConst64(0)}
		return c
	}
	switch u := t.Underlying().(type) {
	case *types.Struct:
		c.Kids = make([]*Cell, u.NumFields())
		for i := range c.Kids {
			c.Kids[i] = m.newCell(u.Field(i).Type())
		}
	case *types.Array:
		n := int(u.Len())
		if n > 1<<20 {
			panic(m.unsupported("huge array"))
		}
		c.Kids = make([]*Cell, n)
		if n > 0 {
			if _, leaf := u.Elem().Underlying().(*types.Basic); leaf {
				z := m.zero(u.Elem())
				for i := range c.Kids {
					c.Kids[i] = &Cell{Epoch: m.epoch, V: z, T: u.Elem()}
				}
			} else {
				for i := range c.Kids {
					c.Kids[i] = m.newCell(u.Elem())
				}
			}
		}
	default:
		c.V = m.zero(t)
	}
	return c
}

// newArrayCell makes a backing array cell of n elements of type elem.
func (m *Machine) newArrayCell(elem types.Type, n int) *Cell {
	c := &Cell{Epoch: m.epoch, T: types.NewArray(elem, int64(n))}
	c.Kids = make([]*Cell, n)
	_, leaf := elem.Underlying().(*types.Basic)
	var z Value
	if leaf {
		z = m.zero(elem)
	}
	for i := range c.Kids {
		if leaf {
			c.Kids[i] = &Cell{Epoch: m.epoch, V: z, T: elem}
		} else {
			c.Kids[i] = m.newCell(elem)
		}
	}
	return c
}

func isAggCell(c *Cell) bool { return c.Kids != nil || isAggType(c.T) }

func isAggType(t types.Type) bool {
	if t == nil || isBigInt(t) {
		return false
	}
	switch t.Underlying().(type) {
	case *types.Struct, *types.Array:
		return true
	}
	return false
}

func (m *Machine) loadCell(c *Cell) Value {
	if !isAggCell(c) {
		if p, ok := c.V.(Poison); ok {
			panic(m.unsupported("read of poisoned memory: " + p.Why))
		}
		return c.V
	}
	if _, ok := c.T.Underlying().(*types.Struct); ok {
		s := make(StructV, len(c.Kids))
		for i, k := range c.Kids {
			s[i] = m.loadCell(k)
		}
		return s
	}
	a := make(ArrayV, len(c.Kids))
	for i, k := range c.Kids {
		a[i] = m.loadCell(k)
	}
	return a
}

func (m *Machine) storeCell(c *Cell, v Value) {
	if !isAggCell(c) {
		if c.Epoch < m.epoch {
			m.journal = append(m.journal, jent{c, c.V})
		}
		c.V = v
		return
	}
	switch x := v.(type) {
	case StructV:
		if len(x) != len(c.Kids) {
			panic(m.unsupported(fmt.Sprintf("struct store arity mismatch %d vs %d (%s)", len(x), len(c.Kids), c.T)))
		}
		for i, k := range c.Kids {
			m.storeCell(k, x[i])
		}
	case ArrayV:
		if len(x) != len(c.Kids) {
			panic(m.unsupported("array store arity mismatch"))
		}
		for i, k := range c.Kids {
			m.storeCell(k, x[i])
		}
	case Poison:
		for _, k := range c.Kids {
			m.storeCell(k, x)
		}
	default:
		panic(m.unsupported(fmt.Sprintf("store of %T into aggregate cell %s", v, c.T)))
	}
}

type jent struct {
	c   *Cell
	old Value
}

func (m *Machine) undoJournal() {
	for i := len(m.journal) - 1; i >= 0; i-- {
		m.journal[i].c.V = m.journal[i].old
	}
	m.journal = m.journal[:0]
}

// ---- helpers for concrete views ----

func (m *Machine) concreteInt(v Value) (int64, bool) {
	t, ok := v.(*Term)
	if !ok || !t.IsConst() || t.S.K != SBV {
		return 0, false
	}
	return t.SignedVal(), true
}

func (m *Machine) mkString(s string) StringV {
	b := make([]*Term, len(s))
	for i := 0; i < len(s); i++ {
		b[i] = m.TT.BVConst(8, uint64(s[i]))
	}
	return StringV{B: b}
}

func (s StringV) Concrete() (string, bool) {
	if s.Opaque != nil {
		return "", false
	}
	b := make([]byte, len(s.B))
	for i, t := range s.B {
		if !t.IsConst() {
			return "", false
		}
		b[i] = byte(t.U)
	}
	return string(b), true
}

// sliceCells returns the cells of a slice's visible window.
func (s SliceV) cells() []*Cell {
	if s.SymLen != nil {
		panic(&pathEnd{endUnsupported, "contents of a length-only slice used"})
	}
	if s.Arr == nil {
		return nil
	}
	return s.Arr.Kids[s.Off : s.Off+s.Len]
}

func (m *Machine) bytesOfSlice(s SliceV) []*Term {
	cs := s.cells()
	r := make([]*Term, len(cs))
	for i, c := range cs {
		t, ok := c.V.(*Term)
		if !ok {
			panic(m.unsupported("byte slice holds non-term"))
		}
		r[i] = t
	}
	return r
}

func (m *Machine) sliceFromBytes(b []*Term) SliceV {
	arr := &Cell{Epoch: m.epoch, T: types.NewArray(types.Typ[types.Uint8], int64(len(b)))}
	arr.Kids = make([]*Cell, len(b))
	for i, t := range b {
		arr.Kids[i] = &Cell{Epoch: m.epoch, V: t, T: types.Typ[types.Uint8]}
	}
	return SliceV{Arr: arr, Off: 0, Len: len(b), Cap: len(b)}
}
