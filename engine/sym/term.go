// Package sym is a path-forking symbolic interpreter of Go SSA that emits SMT-LIB2.
package sym

import (
	"fmt"
	"math/big"
	"strings"
)

type SortKind uint8

const (
	SBool SortKind = iota
	SBV
	SInt
)

type Sort struct {
	K SortKind
	W int
}

func (s Sort) String() string {
	switch s.K {
	case SBool:
		return "Bool"
	case SBV:
		return fmt.Sprintf("(_ BitVec %d)", s.W)
	}
	return "Int"
}

var BoolSort = Sort{SBool, 0}
var IntSort = Sort{SInt, 0}

func BV(w int) Sort { return Sort{SBV, w} }

type Op uint8

const (
	OConst Op = iota
	OSym
	ONot
	OAnd
	OOr
	OIte
	OEq
	// bit-vector
	OBvAdd
	OBvSub
	OBvMul
	OBvUDiv
	OBvURem
	OBvSDiv
	OBvSRem
	OBvAnd
	OBvOr
	OBvXor
	OBvNot
	OBvNeg
	OBvShl
	OBvLshr
	OBvAshr
	OBvUlt
	OBvUle
	OBvSlt
	OBvSle
	OConcat
	OExtract // p1=hi p2=lo
	OZext    // p1 = target width
	OSext    // p1 = target width
	// integers
	OIAdd
	OISub
	OIMul
	OIDiv // SMT-LIB euclidean div
	OIMod // SMT-LIB euclidean mod
	OINeg
	OIAbs
	OILt
	OILe
	OInt2BV // p1 = width
	OBV2Nat
	OUF // name, args
)

var opNames = map[Op]string{
	ONot: "not", OAnd: "and", OOr: "or", OIte: "ite", OEq: "=",
	OBvAdd: "bvadd", OBvSub: "bvsub", OBvMul: "bvmul", OBvUDiv: "bvudiv", OBvURem: "bvurem",
	OBvSDiv: "bvsdiv", OBvSRem: "bvsrem", OBvAnd: "bvand", OBvOr: "bvor", OBvXor: "bvxor",
	OBvNot: "bvnot", OBvNeg: "bvneg", OBvShl: "bvshl", OBvLshr: "bvlshr", OBvAshr: "bvashr",
	OBvUlt: "bvult", OBvUle: "bvule", OBvSlt: "bvslt", OBvSle: "bvsle", OConcat: "concat",
	OIAdd: "+", OISub: "-", OIMul: "*", OIDiv: "div", OIMod: "mod", OINeg: "-", OIAbs: "abs",
	OILt: "<", OILe: "<=", OBV2Nat: "bv2nat",
}

type Term struct {
	ID   int
	Op   Op
	S    Sort
	Args []*Term
	U    uint64   // constant value for BV (masked) / Bool (0/1)
	Big  *big.Int // constant for Int sort
	Name string   // symbol or UF name
	P1   int
	P2   int
}

type termKey struct {
	op         Op
	k          SortKind
	w          int
	a0, a1, a2 int
	u          uint64
	p1, p2     int
	s          string
}

// UFDecl is a declared uninterpreted function.
type UFDecl struct {
	Name string
	Args []Sort
	Ret  Sort
}

// Terms is a hash-consing term factory. One per machine.
type Terms struct {
	tab   map[termKey]*Term
	all   []*Term
	UFs   map[string]*UFDecl
	UFOrd []string
	True  *Term
	False *Term
}

func NewTerms() *Terms {
	t := &Terms{tab: map[termKey]*Term{}, UFs: map[string]*UFDecl{}}
	t.True = t.Bool(true)
	t.False = t.Bool(false)
	return t
}

func (tt *Terms) intern(k termKey, mk func() *Term) *Term {
	if t, ok := tt.tab[k]; ok {
		return t
	}
	t := mk()
	t.ID = len(tt.all)
	tt.all = append(tt.all, t)
	tt.tab[k] = t
	return t
}

func mask(w int) uint64 {
	if w >= 64 {
		return ^uint64(0)
	}
	return (uint64(1) << uint(w)) - 1
}

func (tt *Terms) Bool(b bool) *Term {
	u := uint64(0)
	if b {
		u = 1
	}
	return tt.intern(termKey{op: OConst, k: SBool, u: u}, func() *Term { return &Term{Op: OConst, S: BoolSort, U: u} })
}

func (tt *Terms) BVConst(w int, v uint64) *Term {
	if w > 64 {
		// wide constants are concatenations of 64-bit pieces (never OConst), so constant folding
		// code only ever sees constants that fit a uint64
		return tt.wideConst(w, new(big.Int).SetUint64(v))
	}
	v &= mask(w)
	return tt.intern(termKey{op: OConst, k: SBV, w: w, u: v}, func() *Term { return &Term{Op: OConst, S: BV(w), U: v} })
}

func (tt *Terms) IntConst(v *big.Int) *Term {
	s := v.String()
	return tt.intern(termKey{op: OConst, k: SInt, s: s}, func() *Term { return &Term{Op: OConst, S: IntSort, Big: new(big.Int).Set(v)} })
}

func (tt *Terms) IntConst64(v int64) *Term { return tt.IntConst(big.NewInt(v)) }

func (tt *Terms) Sym(name string, s Sort) *Term {
	return tt.intern(termKey{op: OSym, k: s.K, w: s.W, s: name}, func() *Term { return &Term{Op: OSym, S: s, Name: name} })
}

func (t *Term) IsConst() bool { return t.Op == OConst }
func (t *Term) IsTrue() bool  { return t.Op == OConst && t.S.K == SBool && t.U == 1 }
func (t *Term) IsFalse() bool { return t.Op == OConst && t.S.K == SBool && t.U == 0 }

// SignedVal returns the signed value of a BV constant.
func (t *Term) SignedVal() int64 {
	w := t.S.W
	if w >= 64 {
		return int64(t.U)
	}
	if t.U&(1<<uint(w-1)) != 0 {
		return int64(t.U | ^mask(w))
	}
	return int64(t.U)
}

func (tt *Terms) mk(op Op, s Sort, p1, p2 int, name string, args ...*Term) *Term {
	k := termKey{op: op, k: s.K, w: s.W, p1: p1, p2: p2, s: name, a0: -1, a1: -1, a2: -1}
	switch len(args) {
	case 0:
	case 1:
		k.a0 = args[0].ID
	case 2:
		k.a0, k.a1 = args[0].ID, args[1].ID
	case 3:
		k.a0, k.a1, k.a2 = args[0].ID, args[1].ID, args[2].ID
	default:
		var sb strings.Builder
		sb.WriteString(name)
		for _, a := range args {
			fmt.Fprintf(&sb, ",%d", a.ID)
		}
		k.s = sb.String()
	}
	return tt.intern(k, func() *Term {
		return &Term{Op: op, S: s, Args: append([]*Term(nil), args...), P1: p1, P2: p2, Name: name}
	})
}

// ---- boolean ----

func (tt *Terms) Not(a *Term) *Term {
	if a.IsConst() {
		return tt.Bool(a.U == 0)
	}
	if a.Op == ONot {
		return a.Args[0]
	}
	return tt.mk(ONot, BoolSort, 0, 0, "", a)
}

func (tt *Terms) And(a, b *Term) *Term {
	if a.IsConst() {
		if a.U == 1 {
			return b
		}
		return a
	}
	if b.IsConst() {
		if b.U == 1 {
			return a
		}
		return b
	}
	if a == b {
		return a
	}
	if a.ID > b.ID {
		a, b = b, a
	}
	return tt.mk(OAnd, BoolSort, 0, 0, "", a, b)
}

func (tt *Terms) Or(a, b *Term) *Term {
	if a.IsConst() {
		if a.U == 0 {
			return b
		}
		return a
	}
	if b.IsConst() {
		if b.U == 0 {
			return a
		}
		return b
	}
	if a == b {
		return a
	}
	if a.ID > b.ID {
		a, b = b, a
	}
	return tt.mk(OOr, BoolSort, 0, 0, "", a, b)
}

func (tt *Terms) Implies(a, b *Term) *Term { return tt.Or(tt.Not(a), b) }

func (tt *Terms) AndN(xs ...*Term) *Term {
	r := tt.True
	for _, x := range xs {
		r = tt.And(r, x)
	}
	return r
}

func (tt *Terms) OrN(xs ...*Term) *Term {
	r := tt.False
	for _, x := range xs {
		r = tt.Or(r, x)
	}
	return r
}

func (tt *Terms) Ite(c, a, b *Term) *Term {
	if c.IsConst() {
		if c.U == 1 {
			return a
		}
		return b
	}
	if a == b {
		return a
	}
	if a.S.K == SBool {
		if a.IsTrue() && b.IsFalse() {
			return c
		}
		if a.IsFalse() && b.IsTrue() {
			return tt.Not(c)
		}
		if a.IsTrue() {
			return tt.Or(c, b)
		}
		if a.IsFalse() {
			return tt.And(tt.Not(c), b)
		}
		if b.IsTrue() {
			return tt.Or(tt.Not(c), a)
		}
		if b.IsFalse() {
			return tt.And(c, a)
		}
	}
	if a.S != b.S {
		panic(fmt.Sprintf("ite sort mismatch %v %v", a.S, b.S))
	}
	return tt.mk(OIte, a.S, 0, 0, "", c, a, b)
}

func (tt *Terms) Eq(a, b *Term) *Term {
	if a == b {
		return tt.True
	}
	if a.S != b.S {
		panic(fmt.Sprintf("eq sort mismatch %v %v", a.S, b.S))
	}
	if a.IsConst() && b.IsConst() {
		if a.S.K == SInt {
			return tt.Bool(a.Big.Cmp(b.Big) == 0)
		}
		return tt.Bool(a.U == b.U)
	}
	if a.S.K == SBool {
		if a.IsConst() {
			a, b = b, a
		}
		if b.IsTrue() {
			return a
		}
		if b.IsFalse() {
			return tt.Not(a)
		}
	}
	if a.S.K == SInt {
		if r := tt.intCmpToBV(OEq, a, b); r != nil {
			return r
		}
	}
	if a.ID > b.ID {
		a, b = b, a
	}
	return tt.mk(OEq, BoolSort, 0, 0, "", a, b)
}

// ---- bit-vectors ----

func sx(v uint64, w int) int64 {
	if w >= 64 {
		return int64(v)
	}
	if v&(1<<uint(w-1)) != 0 {
		return int64(v | ^mask(w))
	}
	return int64(v)
}

func (tt *Terms) BvBin(op Op, a, b *Term) *Term {
	if a.S != b.S || a.S.K != SBV {
		panic(fmt.Sprintf("bv binop %s sort mismatch %v %v", opNames[op], a.S, b.S))
	}
	w := a.S.W
	if a.IsConst() && b.IsConst() {
		x, y := a.U, b.U
		var r uint64
		switch op {
		case OBvAdd:
			r = x + y
		case OBvSub:
			r = x - y
		case OBvMul:
			r = x * y
		case OBvUDiv:
			if y == 0 {
				r = mask(w)
			} else {
				r = x / y
			}
		case OBvURem:
			if y == 0 {
				r = x
			} else {
				r = x % y
			}
		case OBvSDiv:
			sxv, syv := sx(x, w), sx(y, w)
			if syv == 0 {
				if sxv >= 0 {
					r = mask(w)
				} else {
					r = 1
				}
			} else if syv == -1 {
				r = uint64(-sxv)
			} else {
				r = uint64(sxv / syv)
			}
		case OBvSRem:
			sxv, syv := sx(x, w), sx(y, w)
			if syv == 0 {
				r = x
			} else if syv == -1 {
				r = 0
			} else {
				r = uint64(sxv % syv)
			}
		case OBvAnd:
			r = x & y
		case OBvOr:
			r = x | y
		case OBvXor:
			r = x ^ y
		case OBvShl:
			if y >= uint64(w) {
				r = 0
			} else {
				r = x << y
			}
		case OBvLshr:
			if y >= uint64(w) {
				r = 0
			} else {
				r = x >> y
			}
		case OBvAshr:
			sxv := sx(x, w)
			if y >= uint64(w) {
				if sxv < 0 {
					r = mask(w)
				} else {
					r = 0
				}
			} else {
				r = uint64(sxv >> y)
			}
		default:
			panic("bad bv binop")
		}
		return tt.BVConst(w, r)
	}
	// light simplifications
	switch op {
	case OBvAdd:
		if a.IsConst() && a.U == 0 {
			return b
		}
		if b.IsConst() && b.U == 0 {
			return a
		}
	case OBvSub:
		if b.IsConst() && b.U == 0 {
			return a
		}
		if a == b {
			return tt.BVConst(w, 0)
		}
	case OBvMul:
		if a.IsConst() {
			a, b = b, a
		}
		if b.IsConst() {
			if b.U == 0 {
				return b
			}
			if b.U == 1 {
				return a
			}
		}
	case OBvAnd:
		if a.IsConst() {
			a, b = b, a
		}
		if b.IsConst() {
			if b.U == 0 {
				return b
			}
			if b.U == mask(w) {
				return a
			}
		}
		if a == b {
			return a
		}
	case OBvOr, OBvXor:
		if a.IsConst() {
			a, b = b, a
		}
		if b.IsConst() && b.U == 0 {
			return a
		}
		if a == b {
			if op == OBvOr {
				return a
			}
			return tt.BVConst(w, 0)
		}
	case OBvShl, OBvLshr, OBvAshr:
		if b.IsConst() && b.U == 0 {
			return a
		}
		if b.IsConst() && b.U >= uint64(w) && op != OBvAshr {
			return tt.BVConst(w, 0)
		}
		// (zext x) << k*8 patterns are kept; the solver handles them.
	}
	if (op == OBvAdd || op == OBvMul || op == OBvAnd || op == OBvOr || op == OBvXor) && a.ID > b.ID {
		a, b = b, a
	}
	return tt.mk(op, a.S, 0, 0, "", a, b)
}

func (tt *Terms) BvCmp(op Op, a, b *Term) *Term {
	if a.S != b.S || a.S.K != SBV {
		panic(fmt.Sprintf("bv cmp sort mismatch %v %v", a.S, b.S))
	}
	w := a.S.W
	if a.IsConst() && b.IsConst() {
		switch op {
		case OBvUlt:
			return tt.Bool(a.U < b.U)
		case OBvUle:
			return tt.Bool(a.U <= b.U)
		case OBvSlt:
			return tt.Bool(sx(a.U, w) < sx(b.U, w))
		case OBvSle:
			return tt.Bool(sx(a.U, w) <= sx(b.U, w))
		}
	}
	if a == b {
		return tt.Bool(op == OBvUle || op == OBvSle)
	}
	// zext(x) <u const where const > max(x)
	if op == OBvUlt && b.IsConst() && a.Op == OZext && a.Args[0].S.W < 64 && b.U > mask(a.Args[0].S.W) {
		return tt.True
	}
	if op == OBvUlt && b.IsConst() && b.U == 0 {
		return tt.False
	}
	if op == OBvUle && a.IsConst() && a.U == 0 {
		return tt.True
	}
	return tt.mk(op, BoolSort, 0, 0, "", a, b)
}

func (tt *Terms) BvNot(a *Term) *Term {
	if a.IsConst() {
		return tt.BVConst(a.S.W, ^a.U)
	}
	if a.Op == OBvNot {
		return a.Args[0]
	}
	return tt.mk(OBvNot, a.S, 0, 0, "", a)
}

func (tt *Terms) BvNeg(a *Term) *Term {
	if a.IsConst() {
		return tt.BVConst(a.S.W, -a.U)
	}
	return tt.mk(OBvNeg, a.S, 0, 0, "", a)
}

func (tt *Terms) Extract(hi, lo int, a *Term) *Term {
	if a.S.K != SBV {
		panic("extract of non-bv")
	}
	if lo == 0 && hi == a.S.W-1 {
		return a
	}
	w := hi - lo + 1
	if a.IsConst() {
		return tt.BVConst(w, a.U>>uint(lo))
	}
	switch a.Op {
	case OZext, OSext:
		in := a.Args[0]
		if hi < in.S.W {
			return tt.Extract(hi, lo, in)
		}
		if a.Op == OZext && lo >= in.S.W {
			return tt.BVConst(w, 0)
		}
	case OConcat:
		lw := a.Args[1].S.W
		if hi < lw {
			return tt.Extract(hi, lo, a.Args[1])
		}
		if lo >= lw {
			return tt.Extract(hi-lw, lo-lw, a.Args[0])
		}
	case OExtract:
		return tt.Extract(hi+a.P2, lo+a.P2, a.Args[0])
	case OBvOr, OBvAnd, OBvXor:
		// push extract through bitwise ops when one side simplifies to a constant (byte packing patterns)
		l := tt.Extract(hi, lo, a.Args[0])
		r := tt.Extract(hi, lo, a.Args[1])
		if l.IsConst() || r.IsConst() {
			return tt.BvBin(a.Op, l, r)
		}
	case OBvShl:
		if a.Args[1].IsConst() {
			k := int(a.Args[1].U)
			if lo >= k {
				return tt.Extract(hi-k, lo-k, a.Args[0])
			}
			if hi < k {
				return tt.BVConst(w, 0)
			}
		}
	case OBvLshr:
		if a.Args[1].IsConst() {
			k := int(a.Args[1].U)
			if hi+k < a.S.W {
				return tt.Extract(hi+k, lo+k, a.Args[0])
			}
			if lo+k >= a.S.W {
				return tt.BVConst(w, 0)
			}
		}
	}
	return tt.mk(OExtract, BV(w), hi, lo, "", a)
}

func (tt *Terms) Zext(w int, a *Term) *Term {
	if a.S.W == w {
		return a
	}
	if a.S.W > w {
		return tt.Extract(w-1, 0, a)
	}
	if a.IsConst() {
		return tt.BVConst(w, a.U)
	}
	if a.Op == OZext {
		return tt.Zext(w, a.Args[0])
	}
	return tt.mk(OZext, BV(w), w, 0, "", a)
}

func (tt *Terms) Sext(w int, a *Term) *Term {
	if a.S.W == w {
		return a
	}
	if a.S.W > w {
		return tt.Extract(w-1, 0, a)
	}
	if a.IsConst() {
		if w > 64 {
			v := big.NewInt(sx(a.U, a.S.W))
			v.Mod(v, new(big.Int).Lsh(big.NewInt(1), uint(w)))
			return tt.wideConst(w, v)
		}
		return tt.BVConst(w, uint64(sx(a.U, a.S.W)))
	}
	return tt.mk(OSext, BV(w), w, 0, "", a)
}

func (tt *Terms) Concat(hi, lo *Term) *Term {
	w := hi.S.W + lo.S.W
	if hi.IsConst() && lo.IsConst() && w <= 64 {
		return tt.BVConst(w, hi.U<<uint(lo.S.W)|lo.U)
	}
	// concat(extract(h,m+1,x), extract(m,l,x)) = extract(h,l,x)
	if hi.Op == OExtract && lo.Op == OExtract && hi.Args[0] == lo.Args[0] && hi.P2 == lo.P1+1 {
		return tt.Extract(hi.P1, lo.P2, hi.Args[0])
	}
	return tt.mk(OConcat, BV(w), 0, 0, "", hi, lo)
}

// ---- integers ----

func (tt *Terms) IBin(op Op, a, b *Term) *Term {
	if a.S.K != SInt || b.S.K != SInt {
		panic("int binop on non-int")
	}
	if a.IsConst() && b.IsConst() {
		r := new(big.Int)
		switch op {
		case OIAdd:
			r.Add(a.Big, b.Big)
		case OISub:
			r.Sub(a.Big, b.Big)
		case OIMul:
			r.Mul(a.Big, b.Big)
		case OIDiv:
			if b.Big.Sign() == 0 {
				return tt.mk(op, IntSort, 0, 0, "", a, b)
			}
			r.Div(a.Big, b.Big) // euclidean
		case OIMod:
			if b.Big.Sign() == 0 {
				return tt.mk(op, IntSort, 0, 0, "", a, b)
			}
			r.Mod(a.Big, b.Big) // euclidean
		}
		return tt.IntConst(r)
	}
	switch op {
	case OIAdd:
		if a.IsConst() && a.Big.Sign() == 0 {
			return b
		}
		if b.IsConst() && b.Big.Sign() == 0 {
			return a
		}
	case OISub:
		if b.IsConst() && b.Big.Sign() == 0 {
			return a
		}
	case OIMul:
		if a.IsConst() && a.Big.Cmp(big.NewInt(1)) == 0 {
			return b
		}
		if b.IsConst() && b.Big.Cmp(big.NewInt(1)) == 0 {
			return a
		}
		if (a.IsConst() && a.Big.Sign() == 0) || (b.IsConst() && b.Big.Sign() == 0) {
			return tt.IntConst64(0)
		}
	}
	return tt.mk(op, IntSort, 0, 0, "", a, b)
}

func (tt *Terms) INeg(a *Term) *Term {
	if a.IsConst() {
		return tt.IntConst(new(big.Int).Neg(a.Big))
	}
	return tt.mk(OINeg, IntSort, 0, 0, "", a)
}

func (tt *Terms) IAbs(a *Term) *Term {
	if a.IsConst() {
		return tt.IntConst(new(big.Int).Abs(a.Big))
	}
	if a.Op == OBV2Nat || a.Op == OIAbs {
		return a
	}
	return tt.mk(OIAbs, IntSort, 0, 0, "", a)
}

func (tt *Terms) ICmp(op Op, a, b *Term) *Term {
	if a.IsConst() && b.IsConst() {
		c := a.Big.Cmp(b.Big)
		if op == OILt {
			return tt.Bool(c < 0)
		}
		return tt.Bool(c <= 0)
	}
	if a == b {
		return tt.Bool(op == OILe)
	}
	if r := tt.intCmpToBV(op, a, b); r != nil {
		return r
	}
	return tt.mk(op, BoolSort, 0, 0, "", a, b)
}

func (tt *Terms) ILt(a, b *Term) *Term { return tt.ICmp(OILt, a, b) }
func (tt *Terms) ILe(a, b *Term) *Term { return tt.ICmp(OILe, a, b) }

// BV2Nat: unsigned value of a bit-vector as Int.
func (tt *Terms) BV2Nat(a *Term) *Term {
	if a.IsConst() {
		return tt.IntConst(new(big.Int).SetUint64(a.U))
	}
	if a.Op == OInt2BV {
		// not an identity in general (mod 2^w); keep
	}
	return tt.mk(OBV2Nat, IntSort, 0, 0, "", a)
}

// BV2Int: signed value of a bit-vector as Int.
func (tt *Terms) BV2Int(a *Term) *Term {
	w := a.S.W
	if a.IsConst() {
		return tt.IntConst(big.NewInt(sx(a.U, w)))
	}
	n := tt.BV2Nat(a)
	sign := tt.BvCmp(OBvSlt, a, tt.BVConst(w, 0))
	return tt.Ite(sign, tt.IBin(OISub, n, tt.IntConst(new(big.Int).Lsh(big.NewInt(1), uint(w)))), n)
}

func (tt *Terms) Int2BV(w int, a *Term) *Term {
	if a.IsConst() {
		m := new(big.Int).Lsh(big.NewInt(1), uint(w))
		r := new(big.Int).Mod(a.Big, m)
		if w <= 64 {
			return tt.BVConst(w, r.Uint64())
		}
		return tt.wideConst(w, r)
	}
	// int2bv is a ring homomorphism Z -> Z/2^w: push it through the integer operators so that
	// machine-integer round trips stay inside the bit-vector theory.
	switch a.Op {
	case OBV2Nat:
		x := a.Args[0]
		if x.S.W == w {
			return x
		}
		if x.S.W < w {
			return tt.Zext(w, x)
		}
		return tt.Extract(w-1, 0, x)
	case OIAdd:
		return tt.BvBin(OBvAdd, tt.Int2BV(w, a.Args[0]), tt.Int2BV(w, a.Args[1]))
	case OISub:
		return tt.BvBin(OBvSub, tt.Int2BV(w, a.Args[0]), tt.Int2BV(w, a.Args[1]))
	case OIMul:
		if w <= 64 && (a.Args[0].IsConst() || a.Args[1].IsConst()) {
			return tt.BvBin(OBvMul, tt.Int2BV(w, a.Args[0]), tt.Int2BV(w, a.Args[1]))
		}
	case OINeg:
		return tt.BvNeg(tt.Int2BV(w, a.Args[0]))
	case OIte:
		return tt.Ite(a.Args[0], tt.Int2BV(w, a.Args[1]), tt.Int2BV(w, a.Args[2]))
	case OIAbs:
		x := a.Args[0]
		bx := tt.Int2BV(w, x)
		return tt.Ite(tt.ILt(x, tt.IntConst64(0)), tt.BvNeg(bx), bx)
	}
	return tt.mk(OInt2BV, BV(w), w, 0, "", a)
}

// wideConst builds a constant wider than 64 bits as a concatenation of 64-bit pieces.
func (tt *Terms) wideConst(w int, v *big.Int) *Term {
	var res *Term
	rem := w
	m64 := new(big.Int).SetUint64(^uint64(0))
	// least significant piece first
	var pieces []*Term
	x := new(big.Int).Set(v)
	for rem > 0 {
		pw := 64
		if rem < 64 {
			pw = rem
		}
		lo := new(big.Int).And(x, m64).Uint64()
		pieces = append(pieces, tt.BVConst(pw, lo))
		x.Rsh(x, 64)
		rem -= pw
	}
	for i := len(pieces) - 1; i >= 0; i-- {
		if res == nil {
			res = pieces[i]
		} else {
			res = tt.mk(OConcat, BV(res.S.W+pieces[i].S.W), 0, 0, "", res, pieces[i])
		}
	}
	return res
}

// AbsBV is the magnitude of a signed bit-vector as an unsigned bit-vector of the same width
// (correct for the minimum value too: |-2^(w-1)| = 2^(w-1) fits unsigned).
func (tt *Terms) AbsBV(x *Term) *Term {
	return tt.Ite(tt.BvCmp(OBvSlt, x, tt.BVConst(x.S.W, 0)), tt.BvNeg(x), x)
}

// AsSigned exposes asSigned.
func (tt *Terms) AsSigned(t *Term) (*Term, bool) { return tt.asSigned(t) }

// asSigned recognises the term BV2Int(x) = ite(x <s 0, bv2nat(x) - 2^w, bv2nat(x)).
func (tt *Terms) asSigned(t *Term) (*Term, bool) {
	if t.Op != OIte || t.Args[2].Op != OBV2Nat {
		return nil, false
	}
	x := t.Args[2].Args[0]
	c := t.Args[0]
	if c.Op != OBvSlt || c.Args[0] != x || !c.Args[1].IsConst() || c.Args[1].U != 0 {
		return nil, false
	}
	s := t.Args[1]
	if s.Op != OISub || s.Args[0] != t.Args[2] || !s.Args[1].IsConst() {
		return nil, false
	}
	if s.Args[1].Big.Cmp(new(big.Int).Lsh(big.NewInt(1), uint(x.S.W))) != 0 {
		return nil, false
	}
	return x, true
}

// intCmpToBV rewrites comparisons between machine-integer images into bit-vector comparisons.
func (tt *Terms) intCmpToBV(op Op, a, b *Term) *Term {
	// returns nil when no rewrite applies. op is OILt, OILe or OEq.
	type view struct {
		x      *Term
		signed bool
	}
	get := func(t *Term) (view, bool) {
		if x, ok := tt.asSigned(t); ok && x.S.W <= 64 {
			return view{x, true}, true
		}
		if t.Op == OBV2Nat && t.Args[0].S.W <= 64 {
			return view{t.Args[0], false}, true
		}
		if t.Op == OIAbs {
			if x, ok := tt.asSigned(t.Args[0]); ok && x.S.W <= 64 {
				return view{tt.AbsBV(x), false}, true
			}
		}
		return view{}, false
	}
	rng := func(v view) (*big.Int, *big.Int) { // inclusive range
		w := uint(v.x.S.W)
		if v.signed {
			lo := new(big.Int).Neg(new(big.Int).Lsh(big.NewInt(1), w-1))
			hi := new(big.Int).Sub(new(big.Int).Lsh(big.NewInt(1), w-1), big.NewInt(1))
			return lo, hi
		}
		return big.NewInt(0), new(big.Int).Sub(new(big.Int).Lsh(big.NewInt(1), w), big.NewInt(1))
	}
	konst := func(v view, c *big.Int) *Term {
		w := v.x.S.W
		m := new(big.Int).Lsh(big.NewInt(1), uint(w))
		return tt.BVConst(w, new(big.Int).Mod(c, m).Uint64())
	}
	lt := func(v view, p, q *Term) *Term {
		if v.signed {
			return tt.BvCmp(OBvSlt, p, q)
		}
		return tt.BvCmp(OBvUlt, p, q)
	}
	le := func(v view, p, q *Term) *Term {
		if v.signed {
			return tt.BvCmp(OBvSle, p, q)
		}
		return tt.BvCmp(OBvUle, p, q)
	}
	va, oka := get(a)
	vb, okb := get(b)
	switch {
	case oka && b.IsConst():
		lo, hi := rng(va)
		c := b.Big
		switch op {
		case OILt: // a < c
			if c.Cmp(lo) <= 0 {
				return tt.False
			}
			if c.Cmp(hi) > 0 {
				return tt.True
			}
			return lt(va, va.x, konst(va, c))
		case OILe:
			if c.Cmp(lo) < 0 {
				return tt.False
			}
			if c.Cmp(hi) >= 0 {
				return tt.True
			}
			return le(va, va.x, konst(va, c))
		case OEq:
			if c.Cmp(lo) < 0 || c.Cmp(hi) > 0 {
				return tt.False
			}
			return tt.Eq(va.x, konst(va, c))
		}
	case a.IsConst() && okb:
		lo, hi := rng(vb)
		c := a.Big
		switch op {
		case OILt: // c < b
			if c.Cmp(hi) >= 0 {
				return tt.False
			}
			if c.Cmp(lo) < 0 {
				return tt.True
			}
			return lt(vb, konst(vb, c), vb.x)
		case OILe:
			if c.Cmp(hi) > 0 {
				return tt.False
			}
			if c.Cmp(lo) <= 0 {
				return tt.True
			}
			return le(vb, konst(vb, c), vb.x)
		case OEq:
			if c.Cmp(lo) < 0 || c.Cmp(hi) > 0 {
				return tt.False
			}
			return tt.Eq(vb.x, konst(vb, c))
		}
	case oka && okb && va.signed == vb.signed:
		x, y := va.x, vb.x
		w := x.S.W
		if y.S.W > w {
			w = y.S.W
		}
		if va.signed {
			x, y = tt.Sext(w, x), tt.Sext(w, y)
		} else {
			x, y = tt.Zext(w, x), tt.Zext(w, y)
		}
		switch op {
		case OILt:
			return lt(va, x, y)
		case OILe:
			return le(va, x, y)
		case OEq:
			return tt.Eq(x, y)
		}
	}
	return nil
}

// UF application; declares the function on first use.
func (tt *Terms) UF(name string, ret Sort, args ...*Term) *Term {
	d, ok := tt.UFs[name]
	if !ok {
		d = &UFDecl{Name: name, Ret: ret}
		for _, a := range args {
			d.Args = append(d.Args, a.S)
		}
		tt.UFs[name] = d
		tt.UFOrd = append(tt.UFOrd, name)
	} else {
		if len(d.Args) != len(args) || d.Ret != ret {
			panic("UF " + name + " redeclared with different signature")
		}
		for i, a := range args {
			if d.Args[i] != a.S {
				panic("UF " + name + " arg sort mismatch")
			}
		}
	}
	if len(args) == 0 {
		return tt.Sym(name, ret)
	}
	return tt.mk(OUF, ret, 0, 0, name, args...)
}

// ---- printing ----

func (t *Term) leafString() string {
	switch t.Op {
	case OConst:
		switch t.S.K {
		case SBool:
			if t.U == 1 {
				return "true"
			}
			return "false"
		case SBV:
			if t.S.W%4 == 0 {
				return fmt.Sprintf("#x%0*x", t.S.W/4, t.U)
			}
			return fmt.Sprintf("#b%0*b", t.S.W, t.U)
		default:
			if t.Big.Sign() < 0 {
				return "(- " + new(big.Int).Neg(t.Big).String() + ")"
			}
			return t.Big.String()
		}
	case OSym:
		return symNameSorted(t.Name, t.S)
	}
	return fmt.Sprintf("t%d", t.ID)
}

// symNameSorted: the printed name carries the sort, because the same nondet name can get different
// sorts on different paths while declarations are global in the incremental solver.
func symNameSorted(n string, s Sort) string {
	code := "b"
	switch s.K {
	case SBV:
		code = fmt.Sprintf("w%d", s.W)
	case SInt:
		code = "i"
	}
	return "|v." + strings.NewReplacer("|", "_", "\\", "_").Replace(n) + "~" + code + "|"
}

func symName(n string) string { return "|v." + strings.NewReplacer("|", "_", "\\", "_").Replace(n) + "|" }

func (t *Term) isLeaf() bool { return t.Op == OConst || t.Op == OSym }

// body prints the defining expression of a non-leaf term, referring to children by name.
func (t *Term) body() string {
	var sb strings.Builder
	switch t.Op {
	case OExtract:
		fmt.Fprintf(&sb, "((_ extract %d %d) %s)", t.P1, t.P2, t.Args[0].leafString())
	case OZext:
		fmt.Fprintf(&sb, "((_ zero_extend %d) %s)", t.P1-t.Args[0].S.W, t.Args[0].leafString())
	case OSext:
		fmt.Fprintf(&sb, "((_ sign_extend %d) %s)", t.P1-t.Args[0].S.W, t.Args[0].leafString())
	case OInt2BV:
		fmt.Fprintf(&sb, "((_ int2bv %d) %s)", t.P1, t.Args[0].leafString())
	case OUF:
		sb.WriteString("(" + symName(t.Name))
		for _, a := range t.Args {
			sb.WriteString(" " + a.leafString())
		}
		sb.WriteString(")")
	default:
		sb.WriteString("(" + opNames[t.Op])
		for _, a := range t.Args {
			sb.WriteString(" " + a.leafString())
		}
		sb.WriteString(")")
	}
	return sb.String()
}

// Pretty prints a term as a (possibly large) tree, for samples in evidence. depth-limited.
func (t *Term) Pretty(depth int) string {
	if t.isLeaf() {
		if t.Op == OSym {
			return t.Name
		}
		if t.S.K == SBV {
			return fmt.Sprintf("%d", t.U)
		}
		return t.leafString()
	}
	if depth <= 0 {
		return "…"
	}
	var sb strings.Builder
	switch t.Op {
	case OExtract:
		fmt.Fprintf(&sb, "(extract[%d:%d] %s)", t.P1, t.P2, t.Args[0].Pretty(depth-1))
		return sb.String()
	case OZext, OSext:
		fmt.Fprintf(&sb, "(ext%d %s)", t.P1, t.Args[0].Pretty(depth-1))
		return sb.String()
	case OInt2BV:
		fmt.Fprintf(&sb, "(int2bv%d %s)", t.P1, t.Args[0].Pretty(depth-1))
		return sb.String()
	case OUF:
		sb.WriteString("(" + t.Name)
	default:
		sb.WriteString("(" + opNames[t.Op])
	}
	for _, a := range t.Args {
		sb.WriteString(" " + a.Pretty(depth-1))
	}
	sb.WriteString(")")
	return sb.String()
}
