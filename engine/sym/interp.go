package sym

import (
	"fmt"
	"go/constant"
	"go/token"
	"go/types"
	"math/big"
	"os"
	"strings"

	"golang.org/x/tools/go/ssa"
)

type Program struct {
	SSA  *ssa.Program
	Fset *token.FileSet
	Pkgs map[string]*ssa.Package
	// packages to initialise, dependency order
	InitOrder []*ssa.Package
}

type deferred struct {
	fn   Value
	args []Value
	call *ssa.CallCommon
	ssaD *ssa.Defer
}

type frame struct {
	fn        *ssa.Function
	locals    map[ssa.Value]Value
	env       []Value
	block     *ssa.BasicBlock
	prev      *ssa.BasicBlock
	cur       ssa.Instruction
	defers    []*deferred
	panicking *goPanic
	deferBy   *frame // frame whose defers are being run by this frame
	result    Value
	forks     map[ssa.Instruction]int
	recovered bool
}

func (m *Machine) get(fr *frame, v ssa.Value) Value {
	switch x := v.(type) {
	case *ssa.Const:
		return m.constValue(x)
	case *ssa.Global:
		return PtrV{C: m.globalCell(x)}
	case *ssa.Function:
		return FuncV{Fn: x}
	case *ssa.Builtin:
		return FuncV{Builtin: x}
	case *ssa.FreeVar:
		for i, fv := range fr.fn.FreeVars {
			if fv == x {
				return fr.env[i]
			}
		}
		panic("freevar not found")
	}
	r, ok := fr.locals[v]
	if !ok {
		panic(fmt.Sprintf("value %s (%T) not computed in %s", v.Name(), v, fr.fn))
	}
	if p, isP := r.(Poison); isP && !m.initing {
		panic(m.unsupported("use of poisoned value: " + p.Why))
	}
	return r
}

func (m *Machine) globalCell(g *ssa.Global) *Cell {
	c, ok := m.globals[g]
	if !ok {
		save := m.epoch
		m.epoch = 0
		c = m.newCell(g.Type().(*types.Pointer).Elem())
		m.epoch = save
		if g.Pkg != nil && !m.inited[g.Pkg] && !m.initing {
			// package never initialised by the engine: its globals are poison
			if !m.packageHasTrivialInit(g) {
				m.poisonCell(c, "global "+g.String()+" of uninitialised package")
			}
		}
		m.globals[g] = c
	}
	return c
}

func (m *Machine) poisonCell(c *Cell, why string) {
	if c.Kids != nil {
		for _, k := range c.Kids {
			m.poisonCell(k, why)
		}
		return
	}
	c.V = Poison{why}
}

// packageHasTrivialInit reports whether global g is never stored to by its package's init
// (then its zero value is its real initial value).
func (m *Machine) packageHasTrivialInit(g *ssa.Global) bool {
	init := g.Pkg.Func("init")
	if init == nil {
		return true
	}
	key := g
	if m.initStores == nil {
		m.initStores = map[*ssa.Package]map[*ssa.Global]bool{}
	}
	set, ok := m.initStores[g.Pkg]
	if !ok {
		set = map[*ssa.Global]bool{}
		var visit func(f *ssa.Function)
		seen := map[*ssa.Function]bool{}
		visit = func(f *ssa.Function) {
			if seen[f] {
				return
			}
			seen[f] = true
			for _, b := range f.Blocks {
				for _, in := range b.Instrs {
					for _, op := range in.Operands(nil) {
						if gg, ok := (*op).(*ssa.Global); ok {
							// any mention of the address in init (store, field address, passing pointer) counts
							set[gg] = true
						}
					}
					if c, ok := in.(ssa.CallInstruction); ok {
						if sc := c.Common().StaticCallee(); sc != nil && sc.Pkg == g.Pkg && strings.HasPrefix(sc.Name(), "init") {
							visit(sc)
						}
					}
				}
			}
		}
		visit(init)
		m.initStores[g.Pkg] = set
	}
	return !set[key]
}

func (m *Machine) constValue(c *ssa.Const) Value {
	t := c.Type()
	if c.Value == nil {
		return m.zero(t)
	}
	if isBigInt(t) {
		panic(m.unsupported("big const"))
	}
	switch u := t.Underlying().(type) {
	case *types.Basic:
		if s, _, ok := basicSort(u); ok {
			if s.K == SBool {
				return m.TT.Bool(constant.BoolVal(c.Value))
			}
			v := constant.ToInt(c.Value)
			if i, ok := constant.Int64Val(v); ok {
				return m.TT.BVConst(s.W, uint64(i))
			}
			if ui, ok := constant.Uint64Val(v); ok {
				return m.TT.BVConst(s.W, ui)
			}
			panic(m.unsupported("const out of range"))
		}
		switch u.Kind() {
		case types.Float32, types.Float64, types.UntypedFloat:
			f, _ := constant.Float64Val(constant.ToFloat(c.Value))
			return FloatV(f)
		case types.String, types.UntypedString:
			return m.mkString(constant.StringVal(c.Value))
		case types.Complex64, types.Complex128:
			return ComplexV(0)
		}
	case *types.TypeParam:
	}
	panic(m.unsupported(fmt.Sprintf("const of type %s", t)))
}

// call runs fn with args; env are closure bindings.
func (m *Machine) call(fn *ssa.Function, args []Value, env []Value) (ret Value) {
	if fn.Blocks == nil {
		panic(m.unsupported("call of function without body: " + fn.String()))
	}
	if m.depth > m.maxDepth() {
		panic(&pathEnd{endDepth, fmt.Sprintf("call depth > %d at %s", m.maxDepth(), fn)})
	}
	fr := &frame{fn: fn, locals: make(map[ssa.Value]Value, 16), env: env}
	for i, p := range fn.Params {
		fr.locals[p] = args[i]
	}
	m.frames = append(m.frames, fr)
	m.depth++
	nfr := len(m.frames)
	if !m.seenFn[fn] {
		m.seenFn[fn] = true
	}
	defer func() {
		m.frames = m.frames[:nfr-1]
		m.depth--
		if r := recover(); r != nil {
			gp, ok := r.(*goPanic)
			if !ok {
				panic(r)
			}
			// restore frame stack for running defers
			m.frames = append(m.frames[:nfr-1], fr)
			m.depth++
			fr.panicking = gp
			m.runDefers(fr)
			m.frames = m.frames[:nfr-1]
			m.depth--
			if fr.panicking != nil {
				panic(fr.panicking)
			}
			// recovered
			if fn.Recover != nil {
				m.frames = append(m.frames[:nfr-1], fr)
				m.depth++
				fr.prev = fr.block
				fr.block = fn.Recover
				ret = m.runBlocks(fr)
				m.frames = m.frames[:nfr-1]
				m.depth--
			} else {
				ret = m.zeroResults(fn)
			}
		}
	}()
	fr.block = fn.Blocks[0]
	return m.runBlocks(fr)
}

func (m *Machine) maxDepth() int {
	if m.Spec.MaxDepth > 0 {
		return m.Spec.MaxDepth
	}
	return 400
}

func (m *Machine) zeroResults(fn *ssa.Function) Value {
	res := fn.Signature.Results()
	switch res.Len() {
	case 0:
		return nil
	case 1:
		return m.zero(res.At(0).Type())
	}
	return m.zero(res)
}

func (m *Machine) runDefers(fr *frame) {
	for len(fr.defers) > 0 {
		d := fr.defers[len(fr.defers)-1]
		fr.defers = fr.defers[:len(fr.defers)-1]
		m.invokeDeferred(fr, d)
	}
}

func (m *Machine) invokeDeferred(fr *frame, d *deferred) {
	// a panic inside a deferred call replaces the current panic
	defer func() {
		if r := recover(); r != nil {
			gp, ok := r.(*goPanic)
			if !ok {
				panic(r)
			}
			fr.panicking = gp
		}
	}()
	m.deferOwner = append(m.deferOwner, fr)
	defer func() { m.deferOwner = m.deferOwner[:len(m.deferOwner)-1] }()
	m.callValue(fr, d.fn, d.args, d.call, true)
}

func (m *Machine) runBlocks(fr *frame) Value {
	for {
		blk := fr.block
		if len(blk.Instrs) > 0 {
			if _, isPhi := blk.Instrs[0].(*ssa.Phi); isPhi {
				pi := -1
				for i, p := range blk.Preds {
					if p == fr.prev {
						pi = i
						break
					}
				}
				var vals []Value
				var phis []*ssa.Phi
				for _, in := range blk.Instrs {
					ph, ok := in.(*ssa.Phi)
					if !ok {
						break
					}
					phis = append(phis, ph)
					vals = append(vals, m.get(fr, ph.Edges[pi]))
				}
				for i, ph := range phis {
					fr.locals[ph] = vals[i]
				}
			}
		}
	instrs:
		for _, in := range blk.Instrs {
			fr.cur = in
			m.steps++
			if m.steps > m.fuel {
				panic(&pathEnd{endFuel, fmt.Sprintf("more than %d steps", m.fuel)})
			}
			switch x := in.(type) {
			case *ssa.Phi:
				// handled in a batch at block entry
			case *ssa.If:
				c := m.get(fr, x.Cond).(*Term)
				var taken bool
				if c.IsConst() {
					taken = c.U == 1
				} else {
					if fr.forks == nil {
						fr.forks = map[ssa.Instruction]int{}
					}
					fr.forks[x]++
					if fr.forks[x] > m.unwind() {
						panic(&pathEnd{endUnwind, fmt.Sprintf("symbolic branch taken more than %d times%s", m.unwind(), m.where())})
					}
					taken = m.Branch(c)
				}
				fr.prev = blk
				if taken {
					fr.block = blk.Succs[0]
				} else {
					fr.block = blk.Succs[1]
				}
				break instrs
			case *ssa.Jump:
				fr.prev = blk
				fr.block = blk.Succs[0]
				break instrs
			case *ssa.Return:
				var res Value
				switch len(x.Results) {
				case 0:
				case 1:
					res = m.get(fr, x.Results[0])
				default:
					tp := make(TupleV, len(x.Results))
					for i, r := range x.Results {
						tp[i] = m.get(fr, r)
					}
					res = tp
				}
				return res
			case *ssa.RunDefers:
				m.runDefers(fr)
				if fr.panicking != nil {
					p := fr.panicking
					fr.panicking = nil
					panic(p)
				}
			case *ssa.Panic:
				v := m.get(fr, x.X)
				panic(&goPanic{val: v, kind: "explicit", msg: m.panicMsg(v)})
			case *ssa.Defer:
				d := &deferred{call: &x.Call, ssaD: x}
				d.fn, d.args = m.prepareCall(fr, &x.Call)
				fr.defers = append(fr.defers, d)
			case *ssa.Go:
				if m.goAsNoop() {
					break
				}
				panic(m.unsupported("go statement"))
			case *ssa.Store:
				m.store(m.get(fr, x.Addr), m.get(fr, x.Val))
			case *ssa.MapUpdate:
				m.mapUpdate(m.get(fr, x.Map), m.get(fr, x.Key), m.get(fr, x.Value))
			case *ssa.DebugRef:
			case *ssa.Send:
				if m.goAsNoop() {
					break
				}
				if !m.chanSend(m.get(fr, x.Chan), m.get(fr, x.X)) {
					panic(m.unsupported("channel send would block (sequential execution)"))
				}
			case ssa.Value:
				if m.initing && fr.fn.Synthetic == "package initializer" {
					fr.locals[x] = m.evalInit(fr, in)
				} else {
					fr.locals[x] = m.evalValue(fr, in)
				}
			default:
				panic(m.unsupported(fmt.Sprintf("instruction %T", in)))
			}
		}
	}
}

func (m *Machine) goAsNoop() bool { return m.stubs["go"] == "noop" }

func (m *Machine) unwind() int {
	if m.Spec.Unwind > 0 {
		return m.Spec.Unwind
	}
	return 64
}

func (m *Machine) panicMsg(v Value) string {
	if iv, ok := v.(IfaceV); ok {
		if s, ok := iv.V.(StringV); ok {
			if c, ok := s.Concrete(); ok {
				return c
			}
		}
		if iv.T != nil {
			return "value of type " + iv.T.String()
		}
	}
	return "?"
}

func (m *Machine) rtPanic(kind, msg string) *goPanic {
	return &goPanic{kind: kind, msg: msg + m.where(), val: IfaceV{T: types.Universe.Lookup("error").Type(), V: OpaqueV{Kind: "runtime.Error:" + kind, ID: m.TT.IntConst64(0)}}}
}

func (m *Machine) evalValue(fr *frame, in ssa.Instruction) Value {
	switch x := in.(type) {
	case *ssa.Alloc:
		return PtrV{C: m.newCell(x.Type().(*types.Pointer).Elem())}
	case *ssa.BinOp:
		return m.binop(x.Op, m.get(fr, x.X), m.get(fr, x.Y), x.X.Type(), x.Y.Type())
	case *ssa.UnOp:
		return m.unop(fr, x)
	case *ssa.Call:
		fn, args := m.prepareCall(fr, &x.Call)
		return m.callValue(fr, fn, args, &x.Call, false)
	case *ssa.ChangeInterface:
		return m.get(fr, x.X)
	case *ssa.ChangeType:
		return m.get(fr, x.X)
	case *ssa.Convert:
		return m.convert(m.get(fr, x.X), x.X.Type(), x.Type())
	case *ssa.MultiConvert:
		return m.convert(m.get(fr, x.X), x.X.Type(), x.Type())
	case *ssa.Extract:
		return m.get(fr, x.Tuple).(TupleV)[x.Index]
	case *ssa.Field:
		return m.get(fr, x.X).(StructV)[x.Field]
	case *ssa.FieldAddr:
		p := m.get(fr, x.X).(PtrV)
		if p.IsNil() {
			panic(m.rtPanic("nil", "nil pointer dereference (field address)"))
		}
		if p.Sym != nil {
			p = m.concretizePtr(p)
		}
		return PtrV{C: p.C.Kids[x.Field]}
	case *ssa.Index:
		return m.index(fr, x)
	case *ssa.IndexAddr:
		return m.indexAddr(fr, x)
	case *ssa.Lookup:
		return m.lookup(fr, x)
	case *ssa.MakeClosure:
		env := make([]Value, len(x.Bindings))
		for i, b := range x.Bindings {
			env[i] = m.get(fr, b)
		}
		return FuncV{Fn: x.Fn.(*ssa.Function), Env: env}
	case *ssa.MakeInterface:
		return IfaceV{T: x.X.Type(), V: m.get(fr, x.X)}
	case *ssa.MakeMap:
		mo := &MapObj{C: &Cell{Epoch: m.epoch, V: []MapEntry(nil)}}
		mt := x.Type().Underlying().(*types.Map)
		mo.KT, mo.VT = mt.Key(), mt.Elem()
		return MapV{mo}
	case *ssa.MakeChan:
		if m.goAsNoop() {
			return ChanV{}
		}
		n, ok := m.concreteInt(m.get(fr, x.Size))
		if !ok {
			panic(m.unsupported("make chan with symbolic size"))
		}
		return ChanV{C: &Cell{Epoch: m.epoch, V: chanState{cap: int(n)}}}
	case *ssa.Select:
		return m.selectOp(fr, x)
	case *ssa.MakeSlice:
		return m.makeSlice(fr, x)
	case *ssa.Slice:
		return m.sliceOp(fr, x)
	case *ssa.SliceToArrayPointer:
		s := m.get(fr, x.X).(SliceV)
		n := int(x.Type().(*types.Pointer).Elem().Underlying().(*types.Array).Len())
		if s.Len < n {
			panic(m.rtPanic("slice", "slice to array pointer: length too short"))
		}
		if s.Arr == nil {
			return PtrV{}
		}
		ac := &Cell{Epoch: m.epoch, T: x.Type().(*types.Pointer).Elem(), Kids: s.Arr.Kids[s.Off : s.Off+n]}
		return PtrV{C: ac}
	case *ssa.Range:
		return m.rangeStart(fr, x)
	case *ssa.Next:
		return m.rangeNext(fr, x)
	case *ssa.TypeAssert:
		return m.typeAssert(fr, x)
	}
	panic(m.unsupported(fmt.Sprintf("value instruction %T", in)))
}

// ---- memory ----

func (m *Machine) load(pv Value) Value {
	p, ok := pv.(PtrV)
	if !ok {
		panic(m.unsupported(fmt.Sprintf("load through %T", pv)))
	}
	if p.IsNil() {
		panic(m.rtPanic("nil", "nil pointer dereference"))
	}
	if p.Sym != nil {
		// ite chain over scalar cells
		cs := p.Sym.cells
		allTerms := true
		for _, c := range cs {
			if _, ok := c.V.(*Term); !ok || c.Kids != nil {
				allTerms = false
				break
			}
		}
		if !allTerms {
			return m.loadCell(m.concretizePtr(p).C)
		}
		res := cs[len(cs)-1].V.(*Term)
		for i := len(cs) - 2; i >= 0; i-- {
			res = m.TT.Ite(m.TT.Eq(p.Sym.idx, m.TT.BVConst(64, uint64(i))), cs[i].V.(*Term), res)
		}
		return res
	}
	return m.loadCell(p.C)
}

func (m *Machine) store(pv Value, v Value) {
	p, ok := pv.(PtrV)
	if !ok {
		panic(m.unsupported(fmt.Sprintf("store through %T", pv)))
	}
	if p.IsNil() {
		panic(m.rtPanic("nil", "nil pointer dereference (store)"))
	}
	if p.Sym != nil {
		cs := p.Sym.cells
		if vt, ok := v.(*Term); ok && len(cs) <= 64 {
			allTerms := true
			for _, c := range cs {
				if _, ok := c.V.(*Term); !ok || c.Kids != nil {
					allTerms = false
					break
				}
			}
			if allTerms {
				for i, c := range cs {
					m.storeCell(c, m.TT.Ite(m.TT.Eq(p.Sym.idx, m.TT.BVConst(64, uint64(i))), vt, c.V.(*Term)))
				}
				return
			}
		}
		p = m.concretizePtr(p)
	}
	m.storeCell(p.C, v)
}

func (m *Machine) concretizePtr(p PtrV) PtrV {
	cs := p.Sym.cells
	conds := make([]*Term, len(cs))
	for i := range cs {
		conds[i] = m.TT.Eq(p.Sym.idx, m.TT.BVConst(64, uint64(i)))
	}
	k := m.Fork(conds)
	return PtrV{C: cs[k]}
}

// boundsCheck forks on idx <u n; panics on the out-of-range side.
func (m *Machine) boundsCheck(idx *Term, n int, what string) {
	in := m.TT.BvCmp(OBvUlt, idx, m.TT.BVConst(64, uint64(n)))
	if !m.Branch(in) {
		panic(m.rtPanic("index", fmt.Sprintf("index out of range [%s] with length %d (%s)", idx.Pretty(2), n, what)))
	}
}

func (m *Machine) toIndex(v Value, t types.Type) *Term {
	x := v.(*Term)
	if x.S.W == 64 {
		return x
	}
	if isSigned(t) {
		return m.TT.Sext(64, x)
	}
	return m.TT.Zext(64, x)
}

func (m *Machine) indexAddr(fr *frame, x *ssa.IndexAddr) Value {
	base := m.get(fr, x.X)
	idx := m.toIndex(m.get(fr, x.Index), x.Index.Type())
	var cells []*Cell
	switch b := base.(type) {
	case SliceV:
		cells = b.cells()
	case PtrV:
		if b.IsNil() {
			panic(m.rtPanic("nil", "nil pointer dereference (index array pointer)"))
		}
		if b.Sym != nil {
			b = m.concretizePtr(b)
		}
		cells = b.C.Kids
	default:
		panic(m.unsupported(fmt.Sprintf("IndexAddr on %T", base)))
	}
	if idx.IsConst() {
		i := idx.SignedVal()
		if i < 0 || i >= int64(len(cells)) {
			panic(m.rtPanic("index", fmt.Sprintf("index out of range [%d] with length %d", i, len(cells))))
		}
		return PtrV{C: cells[i]}
	}
	m.boundsCheck(idx, len(cells), "IndexAddr")
	if len(cells) == 1 {
		return PtrV{C: cells[0]}
	}
	if m.Spec.ForkIndex {
		return m.concretizePtr(PtrV{Sym: &symIdx{cells: cells, idx: idx}})
	}
	return PtrV{Sym: &symIdx{cells: cells, idx: idx}}
}

func (m *Machine) index(fr *frame, x *ssa.Index) Value {
	base := m.get(fr, x.X)
	idx := m.toIndex(m.get(fr, x.Index), x.Index.Type())
	switch b := base.(type) {
	case ArrayV:
		return m.indexVals([]Value(b), idx)
	case StringV:
		return m.indexString(b, idx)
	}
	panic(m.unsupported(fmt.Sprintf("Index on %T", base)))
}

func (m *Machine) indexString(b StringV, idx *Term) Value {
	if b.Opaque != nil {
		panic(m.unsupported("index of opaque string"))
	}
	vals := make([]Value, len(b.B))
	for i, t := range b.B {
		vals[i] = t
	}
	return m.indexVals(vals, idx)
}

func (m *Machine) indexVals(vals []Value, idx *Term) Value {
	if idx.IsConst() {
		i := idx.SignedVal()
		if i < 0 || i >= int64(len(vals)) {
			panic(m.rtPanic("index", fmt.Sprintf("index out of range [%d] with length %d", i, len(vals))))
		}
		return vals[i]
	}
	m.boundsCheck(idx, len(vals), "Index")
	allTerms := true
	for _, v := range vals {
		if _, ok := v.(*Term); !ok {
			allTerms = false
		}
	}
	if allTerms {
		res := vals[len(vals)-1].(*Term)
		for i := len(vals) - 2; i >= 0; i-- {
			res = m.TT.Ite(m.TT.Eq(idx, m.TT.BVConst(64, uint64(i))), vals[i].(*Term), res)
		}
		return res
	}
	conds := make([]*Term, len(vals))
	for i := range vals {
		conds[i] = m.TT.Eq(idx, m.TT.BVConst(64, uint64(i)))
	}
	return vals[m.Fork(conds)]
}

// Concretize forks over the feasible values of t in [lo,hi].
func (m *Machine) Concretize(t *Term, lo, hi int64, what string) int64 {
	if t.IsConst() {
		return t.SignedVal()
	}
	if hi-lo > 4096 {
		panic(m.unsupported(fmt.Sprintf("concretize %s over %d values", what, hi-lo+1)))
	}
	if hi-lo > 8 && os.Getenv("GOSMT_DEBUG") != "" {
		fmt.Printf("CONCRETIZE %s over %d values: %s%s\n", what, hi-lo+1, t.Pretty(3), m.where())
	}
	conds := make([]*Term, 0, hi-lo+1)
	for v := lo; v <= hi; v++ {
		conds = append(conds, m.TT.Eq(t, m.TT.BVConst(t.S.W, uint64(v))))
	}
	return lo + int64(m.Fork(conds))
}

func (m *Machine) maxAlloc() int {
	if m.Spec.MaxAlloc > 0 {
		return m.Spec.MaxAlloc
	}
	return 64
}

// concretizeLen turns a symbolic length/bound into a concrete one by forking; values above
// limit end the path on the panic side or as inconclusive (alloc bound).
func (m *Machine) concretizeBounded(t *Term, limit int, what string) int {
	if t.IsConst() {
		return int(t.SignedVal())
	}
	// fork: t in [0,limit] vs outside
	in := m.TT.BvCmp(OBvUle, t, m.TT.BVConst(64, uint64(limit)))
	if !m.Branch(in) {
		return -1
	}
	return int(m.Concretize(t, 0, int64(limit), what))
}

func (m *Machine) makeSlice(fr *frame, x *ssa.MakeSlice) Value {
	elem := x.Type().Underlying().(*types.Slice).Elem()
	m.allocElemSize = 1
	if sz := types.SizesFor("gc", "amd64").Sizeof(elem); sz > 0 {
		m.allocElemSize = sz
	}
	lt := m.toIndex(m.get(fr, x.Len), x.Len.Type())
	ct := m.toIndex(m.get(fr, x.Cap), x.Cap.Type())
	var n, c int
	if lt.IsConst() && ct.IsConst() {
		n, c = int(lt.SignedVal()), int(ct.SignedVal())
		if n < 0 || c < n || n > 1<<26 {
			if n > 1<<26 && c >= n {
				m.recordAlloc(int64(n), x)
				panic(m.unsupported(fmt.Sprintf("make of %d elements", n)))
			}
			panic(m.rtPanic("makeslice", "makeslice: len/cap out of range"))
		}
	} else {
		n = m.concretizeBounded(lt, m.maxAlloc(), "make len")
		if n < 0 {
			m.symbolicAlloc(lt, x)
		}
		if ct == lt {
			c = n
		} else if !ct.IsConst() && n >= 0 {
			// symbolic capacity with a concrete length: the capacity is only a hint. Negative (as int) or
			// absurd capacities panic in Go; otherwise continue with cap = len (cap() and in-place append
			// into spare capacity are then not modelled - noted in the evidence).
			c = m.symbolicCapHint(ct, n, x)
		} else {
			c = m.concretizeBounded(ct, m.maxAlloc(), "make cap")
			if c < 0 {
				m.symbolicAlloc(ct, x)
			}
			if c < n {
				panic(m.rtPanic("makeslice", "makeslice: cap out of range"))
			}
		}
	}
	arr := m.newArrayCell(elem, c)
	return SliceV{Arr: arr, Off: 0, Len: n, Cap: c}
}

// symbolicAlloc: a make() whose size is a symbolic value above the modelling bound.
// Negative (as signed) sizes panic in Go; huge positive sizes are an "unbounded allocation" event.
func (m *Machine) symbolicAlloc(sz *Term, at ssa.Instruction) {
	neg := m.TT.BvCmp(OBvSlt, sz, m.TT.BVConst(64, 0))
	if m.Branch(neg) {
		panic(m.rtPanic("makeslice", "makeslice: len out of range"))
	}
	if lim := m.Spec.AllocLimit; lim > 0 {
		lim = lim / m.allocElemSize // the limit is in bytes
		within := m.TT.BvCmp(OBvUle, sz, m.TT.BVConst(64, uint64(lim)))
		if !m.Branch(within) {
			m.reportViolation(fmt.Sprintf("allocation-beyond-limit-%d-bytes", m.Spec.AllocLimit), nil)
			panic(&pathEnd{endStop, "allocation beyond limit"})
		}
		// sizes between maxalloc and the limit are legal but not modelled: the path ends here (stated bound)
		m.Sh.mu.Lock()
		m.Sh.Covers["alloc-within-limit-not-explored"]++
		m.Sh.mu.Unlock()
		panic(&pathEnd{endStop, "allocation within limit, beyond modelled size"})
	}
	panic(&pathEnd{endUnwind, fmt.Sprintf("allocation of symbolic size above maxalloc=%d%s", m.maxAlloc(), m.where())})
}

func (m *Machine) recordAlloc(n int64, at ssa.Instruction) {}

func (m *Machine) symbolicCapHint(ct *Term, n int, at ssa.Instruction) int {
	tt := m.TT
	if m.Branch(tt.BvCmp(OBvSlt, ct, tt.BVConst(64, uint64(n)))) {
		panic(m.rtPanic("makeslice", "makeslice: cap out of range"))
	}
	if lim := m.Spec.AllocLimit; lim > 0 {
		lim = lim / m.allocElemSize // the limit is in bytes
		if !m.Branch(tt.BvCmp(OBvUle, ct, tt.BVConst(64, uint64(lim)))) {
			m.reportViolation(fmt.Sprintf("allocation-beyond-limit-%d-bytes", m.Spec.AllocLimit), nil)
			panic(&pathEnd{endStop, "allocation beyond limit"})
		}
	} else if m.Branch(tt.BvCmp(OBvUlt, tt.BVConst(64, 1<<40), ct)) {
		// more than 2^40 elements cannot be allocated: runtime panic / out of memory
		panic(m.rtPanic("makeslice", "makeslice: cap out of range (or out of memory)"))
	}
	m.Sh.mu.Lock()
	m.Sh.Covers["symbolic-capacity-hint-treated-as-len"]++
	m.Sh.mu.Unlock()
	return n
}

func (m *Machine) sliceOp(fr *frame, x *ssa.Slice) Value {
	base := m.get(fr, x.X)
	var lowT, highT, maxT *Term
	if x.Low != nil {
		lowT = m.toIndex(m.get(fr, x.Low), x.Low.Type())
	}
	if x.High != nil {
		highT = m.toIndex(m.get(fr, x.High), x.High.Type())
	}
	if x.Max != nil {
		maxT = m.toIndex(m.get(fr, x.Max), x.Max.Type())
	}
	switch b := base.(type) {
	case StringV:
		if b.Opaque != nil {
			panic(m.unsupported("slice of opaque string"))
		}
		lo, hi := m.sliceBounds(lowT, highT, nil, len(b.B), len(b.B))
		return StringV{B: b.B[lo:hi]}
	case SliceV:
		lo, hi, mx := m.sliceBounds3(lowT, highT, maxT, b.Len, b.Cap)
		if b.Arr == nil {
			return SliceV{}
		}
		return SliceV{Arr: b.Arr, Off: b.Off + lo, Len: hi - lo, Cap: mx - lo}
	case PtrV: // *array
		if b.IsNil() {
			panic(m.rtPanic("nil", "slice of nil array pointer"))
		}
		if b.Sym != nil {
			b = m.concretizePtr(b)
		}
		n := len(b.C.Kids)
		lo, hi, mx := m.sliceBounds3(lowT, highT, maxT, n, n)
		return SliceV{Arr: b.C, Off: lo, Len: hi - lo, Cap: mx - lo}
	}
	panic(m.unsupported(fmt.Sprintf("slice of %T", base)))
}

func (m *Machine) sliceBounds(lowT, highT, maxT *Term, ln, cp int) (int, int) {
	lo, hi, _ := m.sliceBounds3(lowT, highT, maxT, ln, cp)
	return lo, hi
}

func (m *Machine) sliceBounds3(lowT, highT, maxT *Term, ln, cp int) (int, int, int) {
	mx := cp
	if maxT != nil {
		mx = m.boundVal(maxT, cp, "slice max")
	}
	hi := ln
	if highT != nil {
		hi = m.boundVal(highT, mx, "slice high")
	}
	lo := 0
	if lowT != nil {
		lo = m.boundVal(lowT, hi, "slice low")
	}
	return lo, hi, mx
}

// boundVal concretises a slice bound that must lie in [0,limit]; otherwise Go panics.
func (m *Machine) boundVal(t *Term, limit int, what string) int {
	if t.IsConst() {
		v := t.SignedVal()
		if v < 0 || v > int64(limit) {
			panic(m.rtPanic("slice", fmt.Sprintf("%s bounds out of range [%d] with limit %d", what, v, limit)))
		}
		return int(v)
	}
	in := m.TT.BvCmp(OBvUle, t, m.TT.BVConst(64, uint64(limit)))
	if !m.Branch(in) {
		panic(m.rtPanic("slice", fmt.Sprintf("%s bounds out of range [%s] with limit %d", what, t.Pretty(2), limit)))
	}
	return int(m.Concretize(t, 0, int64(limit), what))
}

// ---- unary / binary ----

func (m *Machine) unop(fr *frame, x *ssa.UnOp) Value {
	v := m.get(fr, x.X)
	switch x.Op {
	case token.MUL:
		return m.load(v)
	case token.NOT:
		return m.TT.Not(v.(*Term))
	case token.SUB:
		switch a := v.(type) {
		case *Term:
			return m.TT.BvNeg(a)
		case FloatV:
			return -a
		}
	case token.XOR:
		return m.TT.BvNot(v.(*Term))
	case token.ARROW:
		val, ok, ready := m.chanRecv(v, x.X.Type().Underlying().(*types.Chan).Elem())
		if !ready {
			panic(m.unsupported("channel receive would block (sequential execution)"))
		}
		if x.CommaOk {
			return TupleV{val, m.TT.Bool(ok)}
		}
		return val
	}
	panic(m.unsupported(fmt.Sprintf("unop %s on %T", x.Op, v)))
}

func (m *Machine) binop(op token.Token, a, b Value, at, bt types.Type) Value {
	switch x := a.(type) {
	case *Term:
		y, ok := b.(*Term)
		if !ok {
			break
		}
		if x.S.K == SBool {
			switch op {
			case token.EQL:
				return m.TT.Eq(x, y)
			case token.NEQ:
				return m.TT.Not(m.TT.Eq(x, y))
			case token.LAND:
				return m.TT.And(x, y)
			case token.LOR:
				return m.TT.Or(x, y)
			}
			break
		}
		return m.intBinop(op, x, y, isSigned(at), isSigned(bt))
	case FloatV:
		y := b.(FloatV)
		switch op {
		case token.ADD:
			return x + y
		case token.SUB:
			return x - y
		case token.MUL:
			return x * y
		case token.QUO:
			return x / y
		case token.EQL:
			return m.TT.Bool(x == y)
		case token.NEQ:
			return m.TT.Bool(x != y)
		case token.LSS:
			return m.TT.Bool(x < y)
		case token.LEQ:
			return m.TT.Bool(x <= y)
		case token.GTR:
			return m.TT.Bool(x > y)
		case token.GEQ:
			return m.TT.Bool(x >= y)
		}
	case StringV:
		y := b.(StringV)
		switch op {
		case token.ADD:
			if x.Opaque != nil || y.Opaque != nil {
				return m.freshOpaqueString("concat")
			}
			nb := make([]*Term, 0, len(x.B)+len(y.B))
			nb = append(nb, x.B...)
			nb = append(nb, y.B...)
			return StringV{B: nb}
		case token.EQL:
			return m.stringEq(x, y)
		case token.NEQ:
			return m.TT.Not(m.stringEq(x, y))
		case token.LSS:
			return m.bytesLess(x.B, y.B, false)
		case token.LEQ:
			return m.bytesLess(x.B, y.B, true)
		case token.GTR:
			return m.bytesLess(y.B, x.B, false)
		case token.GEQ:
			return m.bytesLess(y.B, x.B, true)
		}
	}
	switch op {
	case token.EQL:
		return m.valueEq(a, b)
	case token.NEQ:
		return m.TT.Not(m.valueEq(a, b))
	}
	panic(m.unsupported(fmt.Sprintf("binop %s on %T,%T", op, a, b)))
}

func (m *Machine) freshOpaqueString(why string) StringV {
	m.ufSeq++
	return StringV{Opaque: m.TT.Sym(fmt.Sprintf("$str.%s.%d", why, m.ufSeq), BV(64))}
}

func (m *Machine) stringEq(x, y StringV) *Term {
	if x.Opaque != nil || y.Opaque != nil {
		if x.Opaque != nil && y.Opaque != nil {
			return m.TT.Eq(x.Opaque, y.Opaque)
		}
		panic(m.unsupported("comparison of opaque string with concrete string"))
	}
	if x.HexOf != nil && y.HexOf != nil {
		// hex encoding is injective: compare the encoded bytes instead of the digit characters
		return m.bytesEq(x.HexOf, y.HexOf)
	}
	return m.bytesEq(x.B, y.B)
}

func (m *Machine) bytesEq(a, b []*Term) *Term {
	if len(a) != len(b) {
		return m.TT.False
	}
	r := m.TT.True
	for i := range a {
		r = m.TT.And(r, m.TT.Eq(a[i], b[i]))
		if r.IsFalse() {
			return r
		}
	}
	return r
}

// bytesLess: lexicographic a < b (or <= when orEq).
func (m *Machine) bytesLess(a, b []*Term, orEq bool) *Term {
	// build from the end
	n := len(a)
	if len(b) < n {
		n = len(b)
	}
	var tail *Term
	if len(a) < len(b) {
		tail = m.TT.True
	} else if len(a) == len(b) {
		tail = m.TT.Bool(orEq)
	} else {
		tail = m.TT.False
	}
	r := tail
	for i := n - 1; i >= 0; i-- {
		lt := m.TT.BvCmp(OBvUlt, a[i], b[i])
		eq := m.TT.Eq(a[i], b[i])
		r = m.TT.Or(lt, m.TT.And(eq, r))
	}
	return r
}

func (m *Machine) intBinop(op token.Token, x, y *Term, signed, ysigned bool) Value {
	tt := m.TT
	switch op {
	case token.ADD:
		return tt.BvBin(OBvAdd, x, y)
	case token.SUB:
		return tt.BvBin(OBvSub, x, y)
	case token.MUL:
		return tt.BvBin(OBvMul, x, y)
	case token.QUO, token.REM:
		zero := tt.BVConst(y.S.W, 0)
		if m.Branch(tt.Eq(y, zero)) {
			panic(m.rtPanic("divide", "integer divide by zero"))
		}
		if signed {
			if op == token.QUO {
				return tt.BvBin(OBvSDiv, x, y)
			}
			return tt.BvBin(OBvSRem, x, y)
		}
		if op == token.QUO {
			return tt.BvBin(OBvUDiv, x, y)
		}
		return tt.BvBin(OBvURem, x, y)
	case token.AND:
		return tt.BvBin(OBvAnd, x, y)
	case token.OR:
		return tt.BvBin(OBvOr, x, y)
	case token.XOR:
		return tt.BvBin(OBvXor, x, y)
	case token.AND_NOT:
		return tt.BvBin(OBvAnd, x, tt.BvNot(y))
	case token.SHL, token.SHR:
		w := x.S.W
		var amt *Term
		if ysigned && !y.IsConst() {
			if m.Branch(tt.BvCmp(OBvSlt, y, tt.BVConst(y.S.W, 0))) {
				panic(m.rtPanic("shift", "negative shift amount"))
			}
		}
		if y.S.W <= w {
			amt = tt.Zext(w, y)
		} else {
			big := tt.BvCmp(OBvUlt, tt.BVConst(y.S.W, uint64(w-1)), y)
			amt = tt.Ite(big, tt.BVConst(w, uint64(w)), tt.Extract(w-1, 0, y))
		}
		if op == token.SHL {
			return tt.BvBin(OBvShl, x, amt)
		}
		if signed {
			return tt.BvBin(OBvAshr, x, amt)
		}
		return tt.BvBin(OBvLshr, x, amt)
	case token.EQL:
		return tt.Eq(x, y)
	case token.NEQ:
		return tt.Not(tt.Eq(x, y))
	case token.LSS:
		if signed {
			return tt.BvCmp(OBvSlt, x, y)
		}
		return tt.BvCmp(OBvUlt, x, y)
	case token.LEQ:
		if signed {
			return tt.BvCmp(OBvSle, x, y)
		}
		return tt.BvCmp(OBvUle, x, y)
	case token.GTR:
		if signed {
			return tt.BvCmp(OBvSlt, y, x)
		}
		return tt.BvCmp(OBvUlt, y, x)
	case token.GEQ:
		if signed {
			return tt.BvCmp(OBvSle, y, x)
		}
		return tt.BvCmp(OBvUle, y, x)
	}
	panic(m.unsupported("int binop " + op.String()))
}

// valueEq: Go == on non-numeric values.
func (m *Machine) valueEq(a, b Value) *Term {
	switch x := a.(type) {
	case nil:
		return m.TT.Bool(m.isNilValue(b))
	case *Term:
		if y, ok := b.(*Term); ok {
			return m.TT.Eq(x, y)
		}
	case FloatV:
		if y, ok := b.(FloatV); ok {
			return m.TT.Bool(x == y)
		}
	case StringV:
		if y, ok := b.(StringV); ok {
			return m.stringEq(x, y)
		}
	case BigV:
		if y, ok := b.(BigV); ok {
			return m.TT.Eq(x.T, y.T)
		}
	case OpaqueV:
		if y, ok := b.(OpaqueV); ok {
			if x.Kind != y.Kind {
				return m.TT.False
			}
			return m.TT.Eq(x.ID, y.ID)
		}
		return m.TT.False
	case PtrV:
		switch y := b.(type) {
		case PtrV:
			if x.Sym != nil || y.Sym != nil {
				panic(m.unsupported("comparison of symbolic element pointers"))
			}
			return m.TT.Bool(x.C == y.C)
		case nil:
			return m.TT.Bool(x.IsNil())
		}
	case SliceV:
		if b == nil {
			return m.TT.Bool(x.Arr == nil)
		}
		if y, ok := b.(SliceV); ok && (y.Arr == nil || x.Arr == nil) {
			return m.TT.Bool(x.Arr == nil && y.Arr == nil)
		}
	case MapV:
		if b == nil {
			return m.TT.Bool(x.M == nil)
		}
		if y, ok := b.(MapV); ok {
			return m.TT.Bool(x.M == y.M)
		}
	case FuncV:
		if b == nil {
			return m.TT.Bool(x.IsNil())
		}
		if y, ok := b.(FuncV); ok && (y.IsNil() || x.IsNil()) {
			return m.TT.Bool(x.IsNil() && y.IsNil())
		}
	case ChanV:
		if y, ok := b.(ChanV); ok {
			return m.TT.Bool((x.Nil && y.Nil) || (x.C != nil && x.C == y.C))
		}
	case IfaceV:
		switch y := b.(type) {
		case IfaceV:
			if x.T == nil || y.T == nil {
				return m.TT.Bool(x.T == nil && y.T == nil)
			}
			if !types.Identical(x.T, y.T) {
				return m.TT.False
			}
			return m.valueEq(x.V, y.V)
		case nil:
			return m.TT.Bool(x.T == nil)
		}
	case StructV:
		if y, ok := b.(StructV); ok {
			r := m.TT.True
			for i := range x {
				r = m.TT.And(r, m.valueEq(x[i], y[i]))
			}
			return r
		}
	case ArrayV:
		if y, ok := b.(ArrayV); ok {
			r := m.TT.True
			for i := range x {
				r = m.TT.And(r, m.valueEq(x[i], y[i]))
				if r.IsFalse() {
					return r
				}
			}
			return r
		}
	}
	panic(m.unsupported(fmt.Sprintf("== on %T,%T", a, b)))
}

func (m *Machine) isNilValue(v Value) bool {
	switch x := v.(type) {
	case nil:
		return true
	case PtrV:
		return x.IsNil()
	case SliceV:
		return x.Arr == nil
	case MapV:
		return x.M == nil
	case FuncV:
		return x.IsNil()
	case IfaceV:
		return x.T == nil
	case ChanV:
		return x.Nil
	}
	return false
}

// ---- conversions ----

func (m *Machine) convert(v Value, from, to types.Type) Value {
	fu, tu := from.Underlying(), to.Underlying()
	if tp, ok := fu.(*types.TypeParam); ok {
		_ = tp
		panic(m.unsupported("convert from type parameter"))
	}
	switch t := tu.(type) {
	case *types.Basic:
		ts, _, tIsInt := basicSort(t)
		switch x := v.(type) {
		case *Term:
			if tIsInt && x.S.K == SBV {
				if isSigned(from) {
					return m.TT.Sext(ts.W, x)
				}
				return m.TT.Zext(ts.W, x)
			}
			if tIsInt && x.S.K == SBool {
				return x
			}
			if t.Info()&types.IsFloat != 0 {
				if !x.IsConst() {
					panic(m.unsupported("symbolic int to float conversion"))
				}
				if isSigned(from) {
					return FloatV(float64(x.SignedVal()))
				}
				return FloatV(float64(x.U))
			}
			if t.Info()&types.IsString != 0 {
				// rune/byte to string
				if !x.IsConst() {
					panic(m.unsupported("symbolic rune to string"))
				}
				return m.mkString(string(rune(x.SignedVal())))
			}
		case FloatV:
			if tIsInt {
				if isSigned(to) {
					return m.TT.BVConst(ts.W, uint64(int64(x)))
				}
				return m.TT.BVConst(ts.W, uint64(x))
			}
			if t.Info()&types.IsFloat != 0 {
				if t.Kind() == types.Float32 {
					return FloatV(float64(float32(x)))
				}
				return x
			}
		case StringV:
			if t.Info()&types.IsString != 0 {
				return x
			}
		case SliceV:
			if t.Info()&types.IsString != 0 {
				// []byte or []rune -> string
				el := fu.(*types.Slice).Elem().Underlying().(*types.Basic)
				if el.Kind() == types.Uint8 {
					if x.Dec != nil {
						return StringV{DecOf: x.Dec, Opaque: m.TT.UF("$decstr", BV(64), x.Dec)}
					}
					return StringV{B: m.bytesOfSlice(x)}
				}
				panic(m.unsupported("[]rune to string"))
			}
		case PtrV:
			if t.Kind() == types.UnsafePointer {
				return x
			}
		}
	case *types.Slice:
		if s, ok := v.(StringV); ok {
			if s.DecOf != nil {
				return SliceV{SymLen: m.TT.Sym(m.nextName("$declen"), BV(64)), Dec: s.DecOf}
			}
			if s.Opaque != nil {
				panic(m.unsupported("opaque string to []byte"))
			}
			el := t.Elem().Underlying().(*types.Basic)
			if el.Kind() == types.Uint8 {
				sl := m.sliceFromBytes(s.B)
				if len(s.B) == 0 {
					// Go yields a non-nil empty slice; nil-ness differences are not relied upon
				}
				return sl
			}
			panic(m.unsupported("string to []rune"))
		}
		if s, ok := v.(SliceV); ok {
			return s
		}
	case *types.Pointer:
		if p, ok := v.(PtrV); ok {
			return p
		}
	}
	if types.Identical(fu, tu) {
		return v
	}
	panic(m.unsupported(fmt.Sprintf("convert %T from %s to %s", v, from, to)))
}

// ---- type assertions ----

func (m *Machine) typeAssert(fr *frame, x *ssa.TypeAssert) Value {
	iv, ok := m.get(fr, x.X).(IfaceV)
	if !ok {
		panic(m.unsupported("type assert on non-interface value"))
	}
	okv := false
	var res Value
	if _, isIface := x.AssertedType.Underlying().(*types.Interface); isIface {
		if iv.T != nil && m.implements(iv.T, x.AssertedType.Underlying().(*types.Interface)) {
			okv = true
			res = iv
		}
	} else {
		if iv.T != nil && types.Identical(iv.T, x.AssertedType) {
			okv = true
			res = iv.V
		}
	}
	if x.CommaOk {
		if !okv {
			res = m.zero(x.AssertedType)
		}
		return TupleV{res, m.TT.Bool(okv)}
	}
	if !okv {
		tn := "nil"
		if iv.T != nil {
			tn = iv.T.String()
		}
		panic(m.rtPanic("typeassert", fmt.Sprintf("interface conversion: %s is not %s", tn, x.AssertedType)))
	}
	return res
}

func (m *Machine) implements(t types.Type, it *types.Interface) bool {
	return types.Implements(t, it)
}

// ---- maps ----

func (m *Machine) mapEntries(mv Value) []MapEntry {
	mm := mv.(MapV)
	if mm.M == nil {
		return nil
	}
	es, _ := mm.M.C.V.([]MapEntry)
	return es
}

// keyEqDecide compares two map keys; symbolic comparisons fork.
func (m *Machine) keyEq(a, b Value) bool {
	return m.Branch(m.valueEq(a, b))
}

func (m *Machine) mapFind(mv Value, k Value) int {
	es := m.mapEntries(mv)
	for i, e := range es {
		if m.keyEq(e.K, k) {
			return i
		}
	}
	return -1
}

func (m *Machine) mapUpdate(mv, k, v Value) {
	mm := mv.(MapV)
	if mm.M == nil {
		panic(&goPanic{kind: "nilmap", msg: "assignment to entry in nil map" + m.where()})
	}
	es := m.mapEntries(mv)
	i := m.mapFind(mv, k)
	ne := make([]MapEntry, len(es), len(es)+1)
	copy(ne, es)
	if i >= 0 {
		ne[i].V = v
	} else {
		ne = append(ne, MapEntry{k, v})
	}
	m.setMapEntries(mm.M, ne)
}

func (m *Machine) setMapEntries(mo *MapObj, ne []MapEntry) {
	if mo.C.Epoch < m.epoch {
		m.journal = append(m.journal, jent{mo.C, mo.C.V})
	}
	mo.C.V = ne
}

func (m *Machine) mapDelete(mv, k Value) {
	mm := mv.(MapV)
	if mm.M == nil {
		return
	}
	es := m.mapEntries(mv)
	i := m.mapFind(mv, k)
	if i < 0 {
		return
	}
	ne := make([]MapEntry, 0, len(es)-1)
	ne = append(ne, es[:i]...)
	ne = append(ne, es[i+1:]...)
	m.setMapEntries(mm.M, ne)
}

func (m *Machine) lookup(fr *frame, x *ssa.Lookup) Value {
	base := m.get(fr, x.X)
	if s, ok := base.(StringV); ok {
		return m.indexString(s, m.toIndex(m.get(fr, x.Index), x.Index.Type()))
	}
	k := m.get(fr, x.Index)
	vt := x.X.Type().Underlying().(*types.Map).Elem()
	i := m.mapFind(base, k)
	var v Value
	if i >= 0 {
		v = m.mapEntries(base)[i].V
	} else {
		v = m.zero(vt)
	}
	if x.CommaOk {
		return TupleV{v, m.TT.Bool(i >= 0)}
	}
	return v
}

func (m *Machine) rangeStart(fr *frame, x *ssa.Range) Value {
	base := m.get(fr, x.X)
	switch b := base.(type) {
	case StringV:
		if _, ok := b.Concrete(); !ok {
			// byte-wise iteration only valid for ASCII; require concrete
			panic(m.unsupported("range over symbolic string"))
		}
		return &IterV{IsString: true, Str: b}
	case MapV:
		es := m.mapEntries(b)
		order := make([]MapEntry, len(es))
		copy(order, es)
		// Go's map iteration order is unspecified: make it a solver-visible choice when requested
		if m.stubs["maporder"] == "symbolic" && len(order) > 1 && !m.initing {
			order = m.permute(order)
		}
		return &IterV{Entries: order}
	}
	panic(m.unsupported(fmt.Sprintf("range over %T", base)))
}

// permute picks an arbitrary permutation by forking (recorded as nondet "perm").
func (m *Machine) permute(es []MapEntry) []MapEntry {
	rest := append([]MapEntry(nil), es...)
	out := make([]MapEntry, 0, len(es))
	for len(rest) > 1 {
		k := m.NondetRange("maporder", len(rest))
		out = append(out, rest[k])
		rest = append(rest[:k], rest[k+1:]...)
	}
	return append(out, rest[0])
}

func (m *Machine) rangeNext(fr *frame, x *ssa.Next) Value {
	it := m.get(fr, x.Iter).(*IterV)
	if it.IsString {
		s, _ := it.Str.Concrete()
		if it.Pos >= len(s) {
			return TupleV{m.TT.False, m.TT.BVConst(64, 0), m.TT.BVConst(32, 0)}
		}
		for i, r := range s[it.Pos:] {
			_ = i
			pos := it.Pos
			it.Pos += len(string(r))
			return TupleV{m.TT.True, m.TT.BVConst(64, uint64(pos)), m.TT.BVConst(32, uint64(r))}
		}
	}
	if it.Pos >= len(it.Entries) {
		tup := x.Type().(*types.Tuple)
		zeroOrNil := func(t types.Type) Value {
			if b, ok := t.(*types.Basic); ok && b.Kind() == types.Invalid {
				return nil
			}
			return m.zero(t)
		}
		return TupleV{m.TT.False, zeroOrNil(tup.At(1).Type()), zeroOrNil(tup.At(2).Type())}
	}
	e := it.Entries[it.Pos]
	it.Pos++
	return TupleV{m.TT.True, e.K, e.V}
}

var _ = big.NewInt

// ---- channels (sequential semantics, see ChanV) ----

func (m *Machine) chanState(v Value) (ChanV, chanState, bool) {
	ch, ok := v.(ChanV)
	if !ok || ch.Nil || ch.C == nil {
		return ch, chanState{}, false
	}
	return ch, ch.C.V.(chanState), true
}

func (m *Machine) chanSend(c, x Value) bool {
	ch, st, ok := m.chanState(c)
	if !ok {
		return false
	}
	if st.closed {
		panic(m.rtPanic("chan", "send on closed channel"))
	}
	if len(st.items) >= st.cap {
		return false
	}
	items := append(append([]Value{}, st.items...), x)
	m.storeCell(ch.C, chanState{items: items, cap: st.cap, closed: st.closed})
	return true
}

// chanRecv returns (value, ok, ready).
func (m *Machine) chanRecv(c Value, elem types.Type) (Value, bool, bool) {
	ch, st, ok := m.chanState(c)
	if !ok {
		return nil, false, false
	}
	if len(st.items) == 0 {
		if st.closed {
			return m.zero(elem), false, true
		}
		return nil, false, false
	}
	v := st.items[0]
	m.storeCell(ch.C, chanState{items: append([]Value{}, st.items[1:]...), cap: st.cap, closed: st.closed})
	return v, true, true
}

func (m *Machine) selectOp(fr *frame, x *ssa.Select) Value {
	// result: (index int, recvOk bool, r_0, ..., r_{n-1}) with one r per receive state
	nrecv := 0
	for _, s := range x.States {
		if s.Dir == types.RecvOnly {
			nrecv++
		}
	}
	res := make(TupleV, 2+nrecv)
	res[1] = m.TT.False
	ri := 0
	for _, s := range x.States {
		if s.Dir == types.RecvOnly {
			res[2+ri] = m.zero(s.Chan.Type().Underlying().(*types.Chan).Elem())
			ri++
		}
	}
	ri = 0
	for i, s := range x.States {
		if s.Dir == types.RecvOnly {
			v, ok, ready := m.chanRecv(m.get(fr, s.Chan), s.Chan.Type().Underlying().(*types.Chan).Elem())
			if ready {
				res[0] = m.TT.BVConst(64, uint64(i))
				res[1] = m.TT.Bool(ok)
				res[2+ri] = v
				return res
			}
			ri++
		} else if m.chanSend(m.get(fr, s.Chan), m.get(fr, s.Send)) {
			res[0] = m.TT.BVConst(64, uint64(i))
			return res
		}
	}
	if x.Blocking {
		panic(m.unsupported("select would block (sequential execution)"))
	}
	res[0] = m.TT.BVConst(64, ^uint64(0)) // -1: default case
	return res
}
