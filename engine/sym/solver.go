package sym

import (
	"bufio"
	"fmt"
	"io"
	"math/big"
	"os/exec"
	"strings"
	"time"
)

type Result int

const (
	Unsat Result = iota
	Sat
	Unknown
)

func (r Result) String() string { return [...]string{"unsat", "sat", "unknown"}[r] }

// Backend describes one solver command line.
type Backend struct {
	Name      string
	TimeoutMs int
	Argv      []string
	// option lines sent after start / reset
	Prelude []string
}

func BackendZ3(timeoutMs int) Backend {
	return Backend{Name: "z3", TimeoutMs: timeoutMs, Argv: []string{"z3", "-in"},
		Prelude: []string{fmt.Sprintf("(set-option :timeout %d)", timeoutMs), "(set-option :global-declarations true)"}}
}
func BackendZ3New(timeoutMs int) Backend {
	return Backend{Name: "z3-new", TimeoutMs: timeoutMs, Argv: []string{"z3-new", "-in"},
		Prelude: []string{fmt.Sprintf("(set-option :timeout %d)", timeoutMs), "(set-option :global-declarations true)"}}
}
func BackendCvc5Int(timeoutMs int) Backend {
	return Backend{Name: "cvc5-bv-as-int", TimeoutMs: timeoutMs, Argv: []string{"cvc5", "--incremental", "--solve-bv-as-int=sum", "--produce-models",
		fmt.Sprintf("--tlimit-per=%d", timeoutMs), "--lang=smt2"},
		Prelude: []string{"(set-option :global-declarations true)", "(set-logic ALL)"}}
}
func BackendCvc5(timeoutMs int) Backend {
	return Backend{Name: "cvc5", TimeoutMs: timeoutMs, Argv: []string{"cvc5", "--incremental", "--produce-models",
		fmt.Sprintf("--tlimit-per=%d", timeoutMs), "--lang=smt2"},
		Prelude: []string{"(set-logic ALL)"}}
}

// Solver is a live solver process.
type Solver struct {
	B        Backend
	cmd      *exec.Cmd
	in       *bufio.Writer
	inc      io.WriteCloser
	out      *bufio.Reader
	defined  map[int]bool
	declSym  map[string]bool
	declUF   map[string]bool
	Level    int
	Queries  int
	Errors   int
	Time     time.Duration
	Restarts int
	Watchdog int
	Log      io.Writer // optional transcript
	dead     bool
}

func StartSolver(b Backend) (*Solver, error) {
	s := &Solver{B: b}
	if err := s.start(); err != nil {
		return nil, err
	}
	return s, nil
}

func (s *Solver) start() error {
	s.cmd = exec.Command(s.B.Argv[0], s.B.Argv[1:]...)
	w, err := s.cmd.StdinPipe()
	if err != nil {
		return err
	}
	r, err := s.cmd.StdoutPipe()
	if err != nil {
		return err
	}
	s.cmd.Stderr = s.cmd.Stdout
	if err := s.cmd.Start(); err != nil {
		return err
	}
	s.inc = w
	s.in = bufio.NewWriterSize(w, 1<<16)
	s.out = bufio.NewReaderSize(r, 1<<16)
	s.defined = map[int]bool{}
	s.declSym = map[string]bool{}
	s.declUF = map[string]bool{}
	s.Level = 0
	s.dead = false
	for _, l := range s.B.Prelude {
		s.send(l)
	}
	return nil
}

func (s *Solver) Close() {
	if s.cmd != nil && s.cmd.Process != nil {
		s.inc.Close()
		s.cmd.Process.Kill()
		s.cmd.Wait()
	}
}

func (s *Solver) Restart() {
	s.Close()
	s.Restarts++
	s.start()
}

func (s *Solver) send(line string) {
	if s.Log != nil {
		fmt.Fprintln(s.Log, line)
	}
	s.in.WriteString(line)
	s.in.WriteByte('\n')
}

// Reset clears the solver to a blank state (used by standalone queries).
func (s *Solver) Reset() {
	if s.dead {
		s.Restart()
		return
	}
	s.send("(reset)")
	s.defined = map[int]bool{}
	s.declSym = map[string]bool{}
	s.declUF = map[string]bool{}
	s.Level = 0
	for _, l := range s.B.Prelude {
		s.send(l)
	}
}

func (s *Solver) Push() {
	s.send("(push 1)")
	s.Level++
}

func (s *Solver) PopTo(level int) {
	if level < s.Level {
		s.send(fmt.Sprintf("(pop %d)", s.Level-level))
		s.Level = level
	}
}

// define emits declarations/definitions for t's cone (iteratively, post-order).
func (s *Solver) define(tt *Terms, t *Term) {
	if t.isLeaf() && t.Op == OConst {
		return
	}
	type fr struct {
		t *Term
		i int
	}
	stack := []fr{{t, 0}}
	for len(stack) > 0 {
		f := &stack[len(stack)-1]
		cur := f.t
		if cur.Op == OConst || s.defined[cur.ID] {
			stack = stack[:len(stack)-1]
			continue
		}
		if f.i < len(cur.Args) {
			a := cur.Args[f.i]
			f.i++
			if a.Op != OConst && !s.defined[a.ID] {
				stack = append(stack, fr{a, 0})
			}
			continue
		}
		// all children defined
		switch cur.Op {
		case OSym:
			if d, ok := tt.UFs[cur.Name]; ok && len(d.Args) == 0 {
				// nullary UF = plain constant
			}
			s.send(fmt.Sprintf("(declare-fun %s () %s)", cur.leafString(), cur.S))
		case OUF:
			if !s.declUF[cur.Name] {
				d := tt.UFs[cur.Name]
				var sb strings.Builder
				for i, a := range d.Args {
					if i > 0 {
						sb.WriteByte(' ')
					}
					sb.WriteString(a.String())
				}
				s.send(fmt.Sprintf("(declare-fun %s (%s) %s)", symName(cur.Name), sb.String(), d.Ret))
				s.declUF[cur.Name] = true
			}
			s.send(fmt.Sprintf("(define-fun t%d () %s %s)", cur.ID, cur.S, cur.body()))
		default:
			s.send(fmt.Sprintf("(define-fun t%d () %s %s)", cur.ID, cur.S, cur.body()))
		}
		s.defined[cur.ID] = true
		stack = stack[:len(stack)-1]
	}
}

func (s *Solver) Assert(tt *Terms, t *Term) {
	s.define(tt, t)
	s.send("(assert " + t.leafString() + ")")
}

// Check runs check-sat and reads the verdict. Any (error line makes the result Unknown.
func (s *Solver) Check() Result {
	start := time.Now()
	s.Queries++
	s.send("(check-sat)")
	if err := s.in.Flush(); err != nil {
		s.dead = true
		return Unknown
	}
	sawErr := false
	// watchdog: a solver that ignores its own time limit is killed (=> Unknown, restarted on next use)
	proc := s.cmd.Process
	wd := time.AfterFunc(time.Duration(s.B.TimeoutMs)*time.Millisecond*3/2+2*time.Second, func() { proc.Kill() })
	defer wd.Stop()
	for {
		line, err := s.out.ReadString('\n')
		if err != nil {
			s.dead = true
			s.Watchdog++
			s.Time += time.Since(start)
			return Unknown
		}
		line = strings.TrimSpace(line)
		if s.Log != nil {
			fmt.Fprintln(s.Log, "; <- "+line)
		}
		switch {
		case line == "sat":
			s.Time += time.Since(start)
			if sawErr {
				return Unknown
			}
			return Sat
		case line == "unsat":
			s.Time += time.Since(start)
			if sawErr {
				return Unknown
			}
			return Unsat
		case line == "unknown" || line == "timeout" || strings.HasPrefix(line, "cvc5 interrupted") || strings.HasPrefix(line, "(error \"timeout"):
			s.Time += time.Since(start)
			return Unknown
		case strings.HasPrefix(line, "(error"):
			sawErr = true
			s.Errors++
			if s.Log == nil {
				// keep the first few errors visible
				if s.Errors <= 5 {
					fmt.Printf("SOLVER-ERROR[%s]: %s\n", s.B.Name, line)
				}
			}
		}
	}
}

// Values returns the model values of the given symbol terms after a Sat answer.
func (s *Solver) Values(syms []*Term) (map[string]*big.Int, error) {
	res := map[string]*big.Int{}
	if len(syms) == 0 {
		return res, nil
	}
	var sb strings.Builder
	sb.WriteString("(get-value (")
	for _, t := range syms {
		sb.WriteString(t.leafString())
		sb.WriteByte(' ')
	}
	sb.WriteString("))")
	s.send(sb.String())
	s.in.Flush()
	// read a balanced s-expression
	var buf strings.Builder
	depth := 0
	started := false
	for {
		c, err := s.out.ReadByte()
		if err != nil {
			s.dead = true
			return nil, err
		}
		if c == '|' { // quoted symbol: copy through
			buf.WriteByte(c)
			for {
				c2, err := s.out.ReadByte()
				if err != nil {
					return nil, err
				}
				buf.WriteByte(c2)
				if c2 == '|' {
					break
				}
			}
			continue
		}
		if c == '(' {
			depth++
			started = true
		}
		if started {
			buf.WriteByte(c)
		}
		if c == ')' {
			depth--
			if started && depth == 0 {
				break
			}
		}
	}
	txt := buf.String()
	if strings.HasPrefix(txt, "(error") {
		return nil, fmt.Errorf("get-value: %s", txt)
	}
	sx, _ := parseSexp(txt, 0)
	for _, pair := range sx.kids {
		if len(pair.kids) != 2 {
			continue
		}
		name := strings.TrimPrefix(strings.Trim(pair.kids[0].atom, "|"), "v.")
		if i := strings.LastIndex(name, "~"); i >= 0 {
			name = name[:i]
		}
		v := sexpValue(pair.kids[1])
		if v != nil {
			res[name] = v
		}
	}
	return res, nil
}

type sexp struct {
	atom string
	kids []*sexp
}

func parseSexp(s string, i int) (*sexp, int) {
	for i < len(s) && (s[i] == ' ' || s[i] == '\n' || s[i] == '\t' || s[i] == '\r') {
		i++
	}
	if i >= len(s) {
		return &sexp{}, i
	}
	if s[i] == '(' {
		n := &sexp{}
		i++
		for {
			for i < len(s) && (s[i] == ' ' || s[i] == '\n' || s[i] == '\t' || s[i] == '\r') {
				i++
			}
			if i >= len(s) {
				return n, i
			}
			if s[i] == ')' {
				return n, i + 1
			}
			var k *sexp
			k, i = parseSexp(s, i)
			n.kids = append(n.kids, k)
		}
	}
	j := i
	if s[i] == '|' {
		j = i + 1
		for j < len(s) && s[j] != '|' {
			j++
		}
		j++
		return &sexp{atom: s[i:j]}, j
	}
	for j < len(s) && s[j] != ' ' && s[j] != ')' && s[j] != '(' && s[j] != '\n' {
		j++
	}
	return &sexp{atom: s[i:j]}, j
}

func sexpValue(e *sexp) *big.Int {
	if e.atom != "" {
		a := e.atom
		switch {
		case a == "true":
			return big.NewInt(1)
		case a == "false":
			return big.NewInt(0)
		case strings.HasPrefix(a, "#x"):
			v, ok := new(big.Int).SetString(a[2:], 16)
			if ok {
				return v
			}
		case strings.HasPrefix(a, "#b"):
			v, ok := new(big.Int).SetString(a[2:], 2)
			if ok {
				return v
			}
		default:
			v, ok := new(big.Int).SetString(a, 10)
			if ok {
				return v
			}
		}
		return nil
	}
	// (- 5) or (_ bv5 32)
	if len(e.kids) == 2 && e.kids[0].atom == "-" {
		v := sexpValue(e.kids[1])
		if v != nil {
			return new(big.Int).Neg(v)
		}
	}
	if len(e.kids) == 3 && e.kids[0].atom == "_" && strings.HasPrefix(e.kids[1].atom, "bv") {
		v, ok := new(big.Int).SetString(e.kids[1].atom[2:], 10)
		if ok {
			return v
		}
	}
	return nil
}

// CheckStandalone resets the solver and decides the conjunction of the given assertions.
func (s *Solver) CheckStandalone(tt *Terms, asserts []*Term, want []*Term) (Result, map[string]*big.Int) {
	s.Reset()
	for _, a := range asserts {
		if a.IsTrue() {
			continue
		}
		s.Assert(tt, a)
	}
	for _, w := range want {
		s.define(tt, w)
	}
	r := s.Check()
	if r == Sat && want != nil {
		m, err := s.Values(want)
		if err != nil {
			return Unknown, nil
		}
		return r, m
	}
	return r, nil
}
