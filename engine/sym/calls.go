package sym

import (
	"fmt"
	"go/types"
	"strings"

	"golang.org/x/tools/go/ssa"
)

type intrinsicFn func(m *Machine, fr *frame, args []Value, call *ssa.CallCommon) Value

// prepareCall evaluates the callee and arguments.
func (m *Machine) prepareCall(fr *frame, c *ssa.CallCommon) (Value, []Value) {
	var args []Value
	if c.IsInvoke() {
		recv := m.get(fr, c.Value)
		args = append(args, recv)
		for _, a := range c.Args {
			args = append(args, m.get(fr, a))
		}
		return nil, args
	}
	fn := m.get(fr, c.Value)
	for _, a := range c.Args {
		args = append(args, m.get(fr, a))
	}
	return fn, args
}

func (m *Machine) callValue(fr *frame, fnv Value, args []Value, c *ssa.CallCommon, isDefer bool) Value {
	if c != nil && c.IsInvoke() {
		iv, ok := args[0].(IfaceV)
		if !ok {
			panic(m.unsupported(fmt.Sprintf("invoke on %T", args[0])))
		}
		if iv.T == nil {
			panic(m.rtPanic("nil", "invoke "+c.Method.Name()+" on nil interface"))
		}
		// opaque objects dispatch to model methods
		if ov, ok := iv.V.(OpaqueV); ok {
			return m.opaqueMethod(fr, ov, iv, c.Method.Name(), args[1:], c)
		}
		if iv.T == opaqueErrType {
			if c.Method.Name() == "Error" {
				if p, ok := iv.V.(PtrV); ok && p.C != nil {
					if sv, ok := p.C.V.(StringV); ok {
						return sv
					}
				}
				return m.freshOpaqueString("errmsg")
			}
			if c.Method.Name() == "Unwrap" {
				return IfaceV{}
			}
		}
		fn := m.Prog.SSA.LookupMethod(iv.T, c.Method.Pkg(), c.Method.Name())
		if fn == nil {
			panic(m.unsupported("method not found: " + iv.T.String() + "." + c.Method.Name()))
		}
		nargs := append([]Value{iv.V}, args[1:]...)
		return m.callFunc(fr, fn, nargs, nil, c)
	}
	f, ok := fnv.(FuncV)
	if !ok {
		panic(m.unsupported(fmt.Sprintf("call of %T", fnv)))
	}
	if f.Builtin != nil {
		return m.callBuiltin(fr, f.Builtin, args, c)
	}
	if f.Fn == nil {
		panic(m.rtPanic("nil", "call of nil func"))
	}
	return m.callFunc(fr, f.Fn, args, f.Env, c)
}

func fnKey(fn *ssa.Function) string {
	// e.g. "github.com/ontio/ontology/common.SafeAdd", "(*bytes.Buffer).Write", "(math/big.Int).Cmp"
	s := fn.String()
	return s
}

func (m *Machine) callFunc(fr *frame, fn *ssa.Function, args []Value, env []Value, c *ssa.CallCommon) Value {
	key := fnKey(fn)
	if fn.Synthetic == "package initializer" {
		if m.initing && fn.Pkg != nil && initAllowed(fn.Pkg.Pkg.Path()) {
			m.initPackage(fn.Pkg)
		}
		return nil
	}
	if m.isAPI(fn) {
		name := fn.Name()
		if i := strings.Index(name, "["); i > 0 {
			name = name[:i] // instantiated generic helper
		}
		if v, ok := m.apiCall(name, fr, args, c); ok {
			return v
		}
	}
	if strings.HasPrefix(fn.Name(), "verifLenOnly") && len(args) == 1 {
		// harness helper convention: func verifLenOnlyX(n int) []T  ->  a slice with only a (symbolic) length
		if t, ok := args[0].(*Term); ok {
			return SliceV{SymLen: t}
		}
	}
	m.noteFn(fn)
	if st, ok := m.stubs[key]; ok {
		return m.callStub(fr, fn, st, args, c)
	}
	if h, ok := m.intrinsic[key]; ok {
		return h(m, fr, args, c)
	}
	if o := fn.Origin(); o != nil {
		if h, ok := m.intrinsic[fnKey(o)]; ok {
			return h(m, fr, args, c)
		}
	}
	if fn.Pkg != nil && fn.Pkg.Pkg.Name() != "" {
		if h := m.pkgIntrinsic(fn); h != nil {
			return h(m, fr, args, c)
		}
	}
	if fn.Blocks == nil {
		// external (assembly / linkname / bodiless harness API)
		panic(m.unsupported("call of external function " + key))
	}
	return m.call(fn, args, env)
}

// callStub implements spec.json stub directives.
func (m *Machine) callStub(fr *frame, fn *ssa.Function, st string, args []Value, c *ssa.CallCommon) Value {
	switch {
	case st == "noop":
		return m.zeroResults(fn)
	case st == "nondet":
		return m.nondetOfResults(fn)
	case strings.HasPrefix(st, "harness:"):
		name := strings.TrimPrefix(st, "harness:")
		h := m.lookupHarnessFunc(name)
		if h == nil {
			panic(m.unsupported("stub target not found: " + name))
		}
		return m.call(h, args, nil)
	case strings.HasPrefix(st, "uf:"):
		return m.ufStub(strings.TrimPrefix(st, "uf:"), fn, args)
	case st == "unsupported":
		panic(m.unsupported("stubbed as unsupported: " + fn.String()))
	}
	panic(m.unsupported("unknown stub directive " + st))
}

func (m *Machine) lookupHarnessFunc(name string) *ssa.Function {
	if i := strings.LastIndex(name, "."); i >= 0 {
		if p := m.Prog.Pkgs[name[:i]]; p != nil {
			return p.Func(name[i+1:])
		}
	}
	if p := m.Prog.Pkgs[m.Spec.Pkg]; p != nil {
		return p.Func(name)
	}
	return nil
}

func (m *Machine) nondetOfResults(fn *ssa.Function) Value {
	res := fn.Signature.Results()
	switch res.Len() {
	case 0:
		return nil
	case 1:
		return m.nondetOfType(res.At(0).Type(), fn.Name())
	}
	tp := make(TupleV, res.Len())
	for i := range tp {
		tp[i] = m.nondetOfType(res.At(i).Type(), fmt.Sprintf("%s.%d", fn.Name(), i))
	}
	return tp
}

func (m *Machine) nondetOfType(t types.Type, name string) Value {
	if isBigInt(t) {
		return BigV{m.Nondet(name, IntSort, "int")}
	}
	switch u := t.Underlying().(type) {
	case *types.Basic:
		if s, signed, ok := basicSort(u); ok {
			k := fmt.Sprintf("u%d", s.W)
			if signed {
				k = fmt.Sprintf("i%d", s.W)
			}
			if s.K == SBool {
				k = "bool"
			}
			return m.Nondet(name, s, k)
		}
	case *types.Struct:
		sv := make(StructV, u.NumFields())
		for i := range sv {
			sv[i] = m.nondetOfType(u.Field(i).Type(), name+"."+u.Field(i).Name())
		}
		return sv
	case *types.Array:
		av := make(ArrayV, u.Len())
		for i := range av {
			av[i] = m.nondetOfType(u.Elem(), fmt.Sprintf("%s[%d]", name, i))
		}
		return av
	case *types.Interface:
		if t.String() == "error" {
			if m.NondetBool(name + ".err") {
				return m.freshError(name)
			}
			return IfaceV{}
		}
	}
	panic(m.unsupported("nondet of type " + t.String()))
}

var errorType = types.Universe.Lookup("error").Type()

func (m *Machine) freshError(why string) Value {
	m.ufSeq++
	return IfaceV{T: opaqueErrType, V: OpaqueV{Kind: "error", ID: m.TT.IntConst64(int64(1000000 + m.ufSeq))}}
}

// opaqueErrType is the dynamic type of engine-made errors.
var opaqueErrType = types.NewNamed(types.NewTypeName(0, nil, "engineError", nil), types.NewStruct(nil, nil), nil)

func (m *Machine) ufStub(name string, fn *ssa.Function, args []Value) Value {
	var targs []*Term
	for _, a := range args {
		targs = append(targs, m.flatten(a)...)
	}
	res := fn.Signature.Results()
	mk := func(i int, t types.Type) Value {
		u, ok := t.Underlying().(*types.Basic)
		if !ok {
			panic(m.unsupported("uf stub result type " + t.String()))
		}
		s, _, ok := basicSort(u)
		if !ok {
			panic(m.unsupported("uf stub result type " + t.String()))
		}
		return m.TT.UF(fmt.Sprintf("%s.%d/%d", name, i, len(targs)), s, targs...)
	}
	if res.Len() == 1 {
		return mk(0, res.At(0).Type())
	}
	tp := make(TupleV, res.Len())
	for i := range tp {
		tp[i] = mk(i, res.At(i).Type())
	}
	return tp
}

// flatten lists the scalar terms of a value (for UF arguments).
func (m *Machine) flatten(v Value) []*Term {
	switch x := v.(type) {
	case *Term:
		return []*Term{x}
	case BigV:
		return []*Term{x.T}
	case StructV:
		var r []*Term
		for _, f := range x {
			r = append(r, m.flatten(f)...)
		}
		return r
	case ArrayV:
		var r []*Term
		for _, f := range x {
			r = append(r, m.flatten(f)...)
		}
		return r
	case SliceV:
		var r []*Term
		for _, c := range x.cells() {
			r = append(r, m.flatten(m.loadCell(c))...)
		}
		return r
	case StringV:
		if x.Opaque != nil {
			return []*Term{x.Opaque}
		}
		return x.B
	case OpaqueV:
		return []*Term{x.ID}
	case IfaceV:
		if x.T == nil {
			return nil
		}
		return m.flatten(x.V)
	case PtrV:
		if x.IsNil() {
			return nil
		}
		if x.Sym != nil {
			panic(m.unsupported("flatten symbolic pointer"))
		}
		return m.flatten(m.loadCell(x.C))
	case nil:
		return nil
	}
	panic(m.unsupported(fmt.Sprintf("flatten %T", v)))
}

// ---- builtins ----

func (m *Machine) callBuiltin(fr *frame, b *ssa.Builtin, args []Value, c *ssa.CallCommon) Value {
	switch b.Name() {
	case "len":
		switch x := args[0].(type) {
		case SliceV:
			if x.SymLen != nil {
				return x.SymLen
			}
			return m.TT.BVConst(64, uint64(x.Len))
		case StringV:
			if x.Opaque != nil {
				return m.TT.UF("$strlen", BV(64), x.Opaque)
			}
			return m.TT.BVConst(64, uint64(len(x.B)))
		case MapV:
			return m.TT.BVConst(64, uint64(len(m.mapEntries(x))))
		case ArrayV:
			return m.TT.BVConst(64, uint64(len(x)))
		case PtrV:
			if x.IsNil() {
				// len of nil *array is the array length (static)
				return m.TT.BVConst(64, uint64(c.Args[0].Type().Underlying().(*types.Pointer).Elem().Underlying().(*types.Array).Len()))
			}
			return m.TT.BVConst(64, uint64(len(x.C.Kids)))
		case ChanV:
			if _, st, ok := m.chanState(x); ok {
				return m.TT.BVConst(64, uint64(len(st.items)))
			}
			return m.TT.BVConst(64, 0)
		}
	case "cap":
		switch x := args[0].(type) {
		case SliceV:
			return m.TT.BVConst(64, uint64(x.Cap))
		case ArrayV:
			return m.TT.BVConst(64, uint64(len(x)))
		case PtrV:
			return m.TT.BVConst(64, uint64(len(x.C.Kids)))
		case ChanV:
			if _, st, ok := m.chanState(x); ok {
				return m.TT.BVConst(64, uint64(st.cap))
			}
			return m.TT.BVConst(64, 0)
		}
	case "append":
		return m.appendOp(args[0].(SliceV), args[1], c.Args[0].Type())
	case "copy":
		return m.copyOp(args[0].(SliceV), args[1])
	case "delete":
		m.mapDelete(args[0], args[1])
		return nil
	case "panic":
		panic(&goPanic{val: args[0], kind: "explicit", msg: m.panicMsg(args[0])})
	case "recover":
		// the frame running the deferred function is fr; its owner is the panicking frame
		if len(m.deferOwner) > 0 {
			owner := m.deferOwner[len(m.deferOwner)-1]
			// recover only works when called directly by the deferred function
			if owner.panicking != nil && m.isDirectDeferred(fr) {
				p := owner.panicking
				owner.panicking = nil
				if p.val == nil {
					return IfaceV{T: opaqueErrType, V: OpaqueV{Kind: "runtime.Error:" + p.kind, ID: m.TT.IntConst64(0)}}
				}
				return p.val
			}
		}
		return IfaceV{}
	case "print", "println":
		return nil
	case "min", "max":
		r := args[0]
		for _, a := range args[1:] {
			x, y := r.(*Term), a.(*Term)
			signed := isSigned(c.Args[0].Type())
			var lt *Term
			if signed {
				lt = m.TT.BvCmp(OBvSlt, y, x)
			} else {
				lt = m.TT.BvCmp(OBvUlt, y, x)
			}
			if b.Name() == "min" {
				r = m.TT.Ite(lt, y, x)
			} else {
				r = m.TT.Ite(lt, x, y)
			}
		}
		return r
	case "clear":
		if mv, ok := args[0].(MapV); ok && mv.M != nil {
			m.setMapEntries(mv.M, nil)
			return nil
		}
	case "close":
		if m.goAsNoop() {
			return nil
		}
		if ch, st, ok := m.chanState(args[0]); ok {
			m.storeCell(ch.C, chanState{items: st.items, cap: st.cap, closed: true})
			return nil
		}
	case "ssa:wrapnilchk":
		if p, ok := args[0].(PtrV); ok && p.IsNil() {
			panic(m.rtPanic("nil", "value method called using nil pointer"))
		}
		return args[0]
	}
	panic(m.unsupported(fmt.Sprintf("builtin %s on %T", b.Name(), args[0])))
}

func (m *Machine) isDirectDeferred(fr *frame) bool {
	// fr is the frame calling recover(); it must be the deferred function itself, i.e. its
	// parent frame is the defer owner.
	n := len(m.frames)
	if n < 2 || m.frames[n-1] != fr {
		return true
	}
	return m.frames[n-2] == m.deferOwner[len(m.deferOwner)-1]
}

func (m *Machine) appendOp(s SliceV, more Value, st types.Type) Value {
	var add []Value
	switch x := more.(type) {
	case SliceV:
		for _, c := range x.cells() {
			add = append(add, m.loadCell(c))
		}
	case StringV:
		if x.Opaque != nil {
			panic(m.unsupported("append opaque string"))
		}
		for _, b := range x.B {
			add = append(add, b)
		}
	case nil:
	default:
		panic(m.unsupported(fmt.Sprintf("append %T", more)))
	}
	if len(add) == 0 {
		return s
	}
	elem := st.Underlying().(*types.Slice).Elem()
	newLen := s.Len + len(add)
	if newLen <= s.Cap && s.Arr != nil {
		for i, v := range add {
			m.storeCell(s.Arr.Kids[s.Off+s.Len+i], v)
		}
		return SliceV{Arr: s.Arr, Off: s.Off, Len: newLen, Cap: s.Cap}
	}
	// grow: new backing array (capacity policy: exact doubling is not modelled; code must not rely on cap)
	ncap := newLen
	if s.Cap*2 > ncap && s.Cap < 1024 {
		ncap = s.Cap * 2
	}
	arr := m.newArrayCell(elem, ncap)
	for i, c := range s.cells() {
		m.storeCell(arr.Kids[i], m.loadCell(c))
	}
	for i, v := range add {
		m.storeCell(arr.Kids[s.Len+i], v)
	}
	return SliceV{Arr: arr, Off: 0, Len: newLen, Cap: ncap}
}

func (m *Machine) copyOp(dst SliceV, src Value) Value {
	var vals []Value
	switch x := src.(type) {
	case SliceV:
		for _, c := range x.cells() {
			vals = append(vals, m.loadCell(c))
		}
	case StringV:
		for _, b := range x.B {
			vals = append(vals, b)
		}
	}
	n := len(vals)
	if dst.Len < n {
		n = dst.Len
	}
	dc := dst.cells()
	for i := 0; i < n; i++ {
		m.storeCell(dc[i], vals[i])
	}
	return m.TT.BVConst(64, uint64(n))
}

// ---- package init ----

func (m *Machine) runInits() {
	m.initing = true
	defer func() { m.initing = false }()
	for _, p := range m.Prog.InitOrder {
		m.initPackage(p)
	}
}

func (m *Machine) initPackage(p *ssa.Package) {
	if m.inited[p] {
		return
	}
	m.inited[p] = true
	init := p.Func("init")
	if init == nil || init.Blocks == nil {
		return
	}
	func() {
		defer func() {
			if r := recover(); r != nil {
				switch x := r.(type) {
				case *pathEnd:
					m.initNotes = append(m.initNotes, fmt.Sprintf("init of %s stopped: %s", p.Pkg.Path(), x.msg))
				case *goPanic:
					m.initNotes = append(m.initNotes, fmt.Sprintf("init of %s panicked: %s", p.Pkg.Path(), x.msg))
				default:
					panic(r)
				}
				m.frames = m.frames[:0]
				m.depth = 0
				// poison every global the unfinished init mentions but has not stored yet
				m.poisonUnfinished(p)
			}
		}()
		m.fuel = 200_000_000
		m.steps = 0
		m.seq = map[string]int{}
		m.call(init, nil, nil)
	}()
}

func (m *Machine) poisonUnfinished(p *ssa.Package) {
	for _, mem := range p.Members {
		g, ok := mem.(*ssa.Global)
		if !ok {
			continue
		}
		if m.packageHasTrivialInit(g) {
			continue
		}
		c := m.globalCell(g)
		m.poisonCell(c, "global "+g.String()+" (package init did not complete)")
	}
}

func (m *Machine) isAPI(fn *ssa.Function) bool {
	if fn.Pkg == nil {
		return false
	}
	if v, ok := m.apiFns[fn]; ok {
		return v
	}
	p := m.Prog.Fset.Position(fn.Pos())
	r := strings.HasSuffix(p.Filename, "zz_verif_api.go")
	if m.apiFns == nil {
		m.apiFns = map[*ssa.Function]bool{}
	}
	m.apiFns[fn] = r
	return r
}

func (m *Machine) noteFn(fn *ssa.Function) {
	if !m.seenFn[fn] {
		m.seenFn[fn] = true
	}
}

// evalInit evaluates one instruction of a package initialiser; failures poison the result.
func (m *Machine) evalInit(fr *frame, in ssa.Instruction) (res Value) {
	nfr := len(m.frames)
	d := m.depth
	defer func() {
		if r := recover(); r != nil {
			m.frames = m.frames[:nfr]
			m.depth = d
			why := fmt.Sprint(r)
			switch x := r.(type) {
			case *pathEnd:
				why = x.msg
			case *goPanic:
				why = "panic: " + x.msg
			}
			m.initNotes = append(m.initNotes, fmt.Sprintf("%s: %s -> poison (%s)", fr.fn.Pkg.Pkg.Path(), in.String(), why))
			res = Poison{why}
		}
	}()
	return m.evalValue(fr, in)
}
