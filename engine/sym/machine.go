package sym

import (
	"fmt"
	"go/types"
	"os"
	"strings"
	"sync"
	"time"

	"golang.org/x/tools/go/ssa"
)

// ---- path termination ----

type endKind int

const (
	endDone endKind = iota
	endInfeasible
	endUnsupported
	endUnwind
	endDepth
	endFuel
	endStop
)

type pathEnd struct {
	kind endKind
	msg  string
}

func (m *Machine) unsupported(msg string) *pathEnd {
	return &pathEnd{endUnsupported, msg + m.where()}
}

type goPanic struct {
	val  Value // interface value passed to panic
	msg  string
	kind string // "explicit", "index", "slice", "nil", "divide", "typeassert", "makeslice", "shift"
}

// ---- decisions ----

type decision struct {
	choice int
	n      int
}

type Prefix []decision

// Violation is a failed assertion with a model.
type Violation struct {
	Label    string
	Regions  []string          // known-finding regions the path is inside
	Model    []ReplayEntry     // values of every nondet, in order
	Where    string
	PathCond []string          // pretty path condition (truncated)
	Extra    map[string]string
}

type ReplayEntry struct {
	Name  string `json:"name"`
	Kind  string `json:"kind"` // bool,u8,...,range,perm
	Value string `json:"value"` // decimal
}

type nondetRec struct {
	name string
	kind string
	term *Term  // nil when concrete
	conc string // concrete value (decimal) when term == nil
}

// Spec configures one harness run.
type Spec struct {
	Entry        string            `json:"entry"`
	Pkg          string            `json:"pkg"`
	Unwind       int               `json:"unwind"`
	MaxDepth     int               `json:"maxdepth"`
	MaxAlloc     int               `json:"maxalloc"`
	Fuel         int64             `json:"fuel"`
	TimeoutMs    int               `json:"timeout_ms"`
	Backend      string            `json:"backend"` // "z3" (default), "bv-as-int", "nia"
	FinalTimeoutMs int             `json:"final_timeout_ms"` // per-query limit of the assertion portfolio (default: timeout_ms)
	Stubs        map[string]string `json:"stubs"`
	Workers      int               `json:"workers"`
	StopAtFirst  bool              `json:"stop_at_first"`
	MaxViol      int               `json:"max_violations"`
	Confirm      bool              `json:"confirm"` // confirm unsat with second backend
	MaxPaths     int64             `json:"max_paths"`
	InitPkgs     []string          `json:"init_pkgs"`
	Assumptions  []string          `json:"assumptions"`
	Bounds       map[string]string `json:"bounds"`
	PanicIsOK    bool              `json:"panic_is_ok"` // uncaught panics are not violations
	Params       map[string]int    `json:"-"`
	DepthIsViolation bool          `json:"depth_is_violation"` // exceeding maxdepth = unbounded recursion = violation
	MaxSeconds   int               `json:"max_seconds"` // wall-clock budget of one harness run (0 = default)
	AllocLimit   int64             `json:"alloc_limit"` // a make() whose symbolic size can exceed this is a violation
	ForceLower   bool              `json:"force_lower"`
	NoLower      bool              `json:"no_lower"` // keep Int theory instead of lowering bounded integers to bit-vectors
	ForkIndex    bool              `json:"fork_index"` // concretise symbolic indices by forking (keeps x*TABLE[i] linear)
}

// Shared is state shared by all workers of one harness run.
type Shared struct {
	mu         sync.Mutex
	work       []Prefix
	inflight   int
	cond       *sync.Cond
	Prog       *Program
	Spec       *Spec
	Stats      Stats
	Violations []*Violation
	Incon      map[string]int // inconclusive reasons
	Covers     map[string]int
	AssertSeen map[string]int
	Samples    []string
	FuncsSeen  map[*ssa.Function]bool
	stop       bool
	Known      map[string]bool // known finding ids (status known)
	seenViol   map[string]bool
	dupViol    int
	deadline   time.Time
	InitNotes  []string
}

type Stats struct {
	Paths        int64
	PathsDone    int64
	Infeasible   int64
	Obligations  int64
	Discharged   int64
	Trivial      int64
	FeasQueries  int64
	Unknown      int64
	SolverTime   map[string]time.Duration
	SolverCalls  map[string]int64
	Steps        int64
	MaxDecisions int
}

// Machine executes paths. One per worker.
type Machine struct {
	TT      *Terms
	Sh      *Shared
	Prog    *Program
	Spec    *Spec
	primary *Solver
	extra   []*Solver // portfolio for final queries
	extraForm []int   // form each back end gets: 0 mixed Int/BV as built, 1 Int-lowered (pure bit-vector), 2 integer-lifted (pure NIA)
	epoch   int
	journal []jent

	globals map[*ssa.Global]*Cell
	inited  map[*ssa.Package]bool
	initing bool

	// per path
	prefix    Prefix
	pos       int
	path      Prefix // decisions actually taken (prefix + new)
	pc        []*Term
	pcs       []pcEnt
	spc       []pcEnt // entries reflected in the primary solver stack
	nondets   []nondetRec
	seq       map[string]int
	regions   []string
	steps     int64
	depth     int
	frames    []*frame
	hashApps  map[string][]hashApp
	pathNotes []string
	fuel      int64
	id        int
	ufSeq     int
	stubs     map[string]string
	intrinsic map[string]intrinsicFn
	ghost     map[string]Value

	seenFn         map[*ssa.Function]bool
	apiFns         map[*ssa.Function]bool
	lw             *Lowerer
	lf             *Lifter
	b58inv         map[*Term]*Term
	natBytes       map[*Term][]*Term
	b58enc         map[*Term]*b58Rec
	b58pos         map[*Term]b58Pos
	liftFailed     bool
	lowerFail      int
	panicDetail    string
	allocElemSize  int64
	addrSeq        uint64
	addrs          map[*Cell]uint64
	deferOwner     []*frame
	initStores     map[*ssa.Package]map[*ssa.Global]bool
	initNotes      []string
	allocHook      func(sz *Term, at ssa.Instruction)
	bigT           types.Type
	hashers        map[int]*hasherState
	opaqueHandlers map[string]func(m *Machine, fr *frame, ov OpaqueV, name string, args []Value, c *ssa.CallCommon) Value
}

type hashApp struct {
	in  []*Term
	out []*Term
	dig *Term
}

func (m *Machine) where() string {
	if len(m.frames) == 0 {
		return ""
	}
	var sb strings.Builder
	sb.WriteString(" @")
	for i := len(m.frames) - 1; i >= 0 && i >= len(m.frames)-4; i-- {
		f := m.frames[i]
		sb.WriteString(" " + f.fn.String())
		if f.cur != nil {
			p := m.Prog.Fset.Position(f.cur.Pos())
			if p.IsValid() {
				sb.WriteString(fmt.Sprintf("(%s:%d)", shortFile(p.Filename), p.Line))
			}
		}
	}
	return sb.String()
}

func shortFile(s string) string {
	if i := strings.LastIndex(s, "/"); i >= 0 {
		return s[i+1:]
	}
	return s
}

func NewShared(prog *Program, spec *Spec) *Shared {
	sh := &Shared{Prog: prog, Spec: spec, Incon: map[string]int{}, Covers: map[string]int{}, AssertSeen: map[string]int{},
		FuncsSeen: map[*ssa.Function]bool{}, Known: map[string]bool{}, seenViol: map[string]bool{}}
	sh.cond = sync.NewCond(&sh.mu)
	sh.Stats.SolverTime = map[string]time.Duration{}
	sh.Stats.SolverCalls = map[string]int64{}
	sh.work = []Prefix{nil}
	if spec.MaxSeconds > 0 {
		sh.deadline = time.Now().Add(time.Duration(spec.MaxSeconds) * time.Second)
	}
	return sh
}

func (sh *Shared) take() (Prefix, bool) {
	sh.mu.Lock()
	defer sh.mu.Unlock()
	if !sh.deadline.IsZero() && time.Now().After(sh.deadline) && !sh.stop {
		sh.Incon["time budget of the harness exhausted"]++
		sh.stop = true
		sh.cond.Broadcast()
	}
	for {
		if sh.stop {
			return nil, false
		}
		if n := len(sh.work); n > 0 {
			p := sh.work[n-1]
			sh.work = sh.work[:n-1]
			sh.inflight++
			return p, true
		}
		if sh.inflight == 0 {
			sh.cond.Broadcast()
			return nil, false
		}
		sh.cond.Wait()
	}
}

func (sh *Shared) done() {
	sh.mu.Lock()
	sh.inflight--
	if sh.inflight == 0 && len(sh.work) == 0 {
		sh.cond.Broadcast()
	}
	sh.mu.Unlock()
}

func (sh *Shared) push(p Prefix) {
	sh.mu.Lock()
	sh.work = append(sh.work, p)
	sh.Stats.Paths++
	sh.cond.Signal()
	sh.mu.Unlock()
}

func NewMachine(sh *Shared, id int) (*Machine, error) {
	m := &Machine{TT: NewTerms(), Sh: sh, Prog: sh.Prog, Spec: sh.Spec, id: id,
		globals: map[*ssa.Global]*Cell{}, inited: map[*ssa.Package]bool{}, seenFn: map[*ssa.Function]bool{},
		opaqueHandlers: map[string]func(m *Machine, fr *frame, ov OpaqueV, name string, args []Value, c *ssa.CallCommon) Value{}}
	to := sh.Spec.TimeoutMs
	if to == 0 {
		to = 10000
	}
	var err error
	m.primary, err = StartSolver(BackendZ3(to))
	if err != nil {
		return nil, err
	}
	backs := []Backend{}
	pto := to // primary (feasibility) limit
	if sh.Spec.FinalTimeoutMs > 0 {
		to = sh.Spec.FinalTimeoutMs
	}
	switch sh.Spec.Backend {
	case "bv-as-int":
		m.primary.Close()
		m.primary, err = StartSolver(BackendCvc5Int(pto))
		if err != nil {
			return nil, err
		}
		backs = append(backs, BackendCvc5Int(to), BackendZ3(to), BackendZ3New(to))
		m.extraForm = []int{b2i(sh.Spec.ForceLower), 1, 1}
	case "nia":
		// non-linear integer arithmetic: everything lifted to Int (lift.go) and decided by z3's NIA solver
		m.primary.Close()
		m.primary, err = StartSolver(BackendZ3New(pto))
		if err != nil {
			return nil, err
		}
		backs = append(backs, BackendZ3New(to), BackendZ3(to), BackendCvc5Int(to))
		m.extraForm = []int{2, 2, 0}
	default:
		backs = append(backs, BackendZ3(to), BackendCvc5Int(to), BackendZ3New(to))
		m.extraForm = []int{b2i(!sh.Spec.NoLower), 0, b2i(!sh.Spec.NoLower)}
	}
	for _, b := range backs {
		s, err := StartSolver(b)
		if err != nil {
			return nil, err
		}
		m.extra = append(m.extra, s)
	}
	if os.Getenv("GOSMT_LOG") != "" && id == 0 {
		f, _ := os.Create(os.Getenv("GOSMT_LOG"))
		m.primary.Log = f
	}
	m.lw = NewLowerer(m.TT)
	m.lf = NewLifter(m.TT)
	m.natBytes = map[*Term][]*Term{}
	m.stubs = sh.Spec.Stubs
	m.intrinsic = map[string]intrinsicFn{}
	registerIntrinsics(m)
	registerBase58Intrinsics(m)
	return m, nil
}

func (m *Machine) Close() {
	m.primary.Close()
	for _, s := range m.extra {
		s.Close()
	}
}

// Run explores paths until the shared work list is empty.
func (m *Machine) Run(entry *ssa.Function) {
	// package initialisation happens once per machine at epoch 0
	m.epoch = 0
	m.runInits()
	m.epoch = 1
	for {
		p, ok := m.Sh.take()
		if !ok {
			return
		}
		m.runPath(entry, p)
		m.Sh.done()
	}
}

func (m *Machine) runPath(entry *ssa.Function, prefix Prefix) {
	m.prefix = prefix
	m.pos = 0
	m.path = m.path[:0]
	m.pc = m.pc[:0]
	m.nondets = m.nondets[:0]
	m.seq = map[string]int{}
	m.regions = nil
	m.steps = 0
	m.depth = 0
	m.frames = m.frames[:0]
	m.hashApps = map[string][]hashApp{}
	m.hashers = nil
	m.addrs = nil
	m.addrSeq = 0
	m.deferOwner = m.deferOwner[:0]
	m.pathNotes = nil
	m.ghost = map[string]Value{}
	m.ufSeq = 0
	m.b58inv, m.b58enc, m.b58pos = map[*Term]*Term{}, map[*Term]*b58Rec{}, map[*Term]b58Pos{}
	m.natBytes = map[*Term][]*Term{}
	m.fuel = m.Spec.Fuel
	if m.fuel == 0 {
		m.fuel = 50_000_000
	}
	m.pcs = m.pcs[:0]
	m.epoch++

	var end *pathEnd
	func() {
		defer func() {
			if r := recover(); r != nil {
				switch x := r.(type) {
				case *pathEnd:
					end = x
					if x.kind == endDepth && m.Spec.DepthIsViolation {
						m.frames = m.frames[:0]
						m.depth = 0
						m.reportViolation("panic: unbounded recursion (call depth exceeds maxdepth)", nil)
					}
				case *goPanic:
					// uncaught panic in the harness
					end = &pathEnd{endDone, ""}
					if !m.Spec.PanicIsOK {
						m.panicDetail = x.kind + ": " + x.msg
						m.reportViolation("panic: "+x.kind, nil)
						m.panicDetail = ""
					}
				default:
					panic(r)
				}
			}
		}()
		m.call(entry, nil, nil)
		end = &pathEnd{endDone, ""}
	}()
	m.undoJournal()
	sh := m.Sh
	sh.mu.Lock()
	sh.Stats.PathsDone++
	sh.Stats.Steps += m.steps
	if len(m.path) > sh.Stats.MaxDecisions {
		sh.Stats.MaxDecisions = len(m.path)
	}
	switch end.kind {
	case endDone, endStop:
		if len(sh.Samples) < 4 {
			sh.Samples = append(sh.Samples, m.describePath())
		}
	case endInfeasible:
		sh.Stats.Infeasible++
	case endUnsupported:
		sh.Incon["unsupported: "+end.msg]++
	case endUnwind:
		sh.Incon["unwind: "+end.msg]++
	case endDepth:
		if !sh.Spec.DepthIsViolation {
			sh.Incon["depth: "+end.msg]++
		}
	case endFuel:
		sh.Incon["fuel: "+end.msg]++
	}
	if sh.Spec.MaxPaths > 0 && sh.Stats.PathsDone >= sh.Spec.MaxPaths && (len(sh.work) > 0 || sh.inflight > 1) {
		sh.Incon["max_paths reached"]++
		sh.stop = true
		sh.cond.Broadcast()
	}
	sh.mu.Unlock()
}

func (m *Machine) describePath() string {
	var sb strings.Builder
	sb.WriteString(fmt.Sprintf("decisions=%d nondets=[", len(m.path)))
	for i, n := range m.nondets {
		if i > 12 {
			sb.WriteString("…")
			break
		}
		if i > 0 {
			sb.WriteString(" ")
		}
		if n.term == nil {
			sb.WriteString(n.name + "=" + n.conc)
		} else {
			sb.WriteString(n.name + ":sym")
		}
	}
	sb.WriteString("] pc=")
	for i, c := range m.pc {
		if i >= 6 {
			sb.WriteString(" ∧ …")
			break
		}
		if i > 0 {
			sb.WriteString(" ∧ ")
		}
		sb.WriteString(c.Pretty(4))
	}
	return sb.String()
}

// ---- forking ----

type pcEnt struct {
	t   *Term
	dec bool
}

// syncSolver makes the primary solver's assertion stack equal to the current path condition.
// Level 1 is a base level so that every fact can be popped; every decision opens a new level.
func (m *Machine) syncSolver() {
	if m.primary.dead {
		m.primary.Restart()
		m.spc = m.spc[:0]
	}
	if m.primary.Level == 0 {
		m.primary.Push()
		m.spc = m.spc[:0]
	}
	c := 0
	for c < len(m.spc) && c < len(m.pcs) && m.spc[c] == m.pcs[c] {
		c++
	}
	if c < len(m.spc) {
		// something must be removed: find the level that contains spc[c]
		// level of entry i = 1 + number of decision entries in spc[0..i]
		lvl := 1
		start := 0 // index where the level containing spc[c] starts
		for i := 0; i <= c; i++ {
			if m.spc[i].dec {
				lvl++
				start = i
			}
		}
		if m.spc[c].dec {
			// spc[c] opens its own level: pop it, keep everything before
			m.primary.PopTo(lvl - 1)
		} else {
			// a fact inside level lvl must go: pop the whole level and re-assert from its start
			if lvl == 1 {
				m.primary.PopTo(0)
				m.primary.Push()
				c = 0
			} else {
				m.primary.PopTo(lvl - 1)
				c = start
			}
		}
		m.spc = m.spc[:c]
	}
	for ; c < len(m.pcs); c++ {
		e := m.pcs[c]
		if e.dec {
			m.primary.Push()
		}
		m.primary.Assert(m.TT, m.L(e.t))
		m.spc = append(m.spc, e)
	}
}

func (m *Machine) addPC(c *Term, dec bool) {
	if c.IsTrue() && !dec {
		return
	}
	m.pc = append(m.pc, c)
	m.pcs = append(m.pcs, pcEnt{c, dec})
}

func (m *Machine) checkPrimary(c *Term) Result {
	m.syncSolver()
	m.primary.Push()
	m.primary.Assert(m.TT, m.L(c))
	r := m.primary.Check()
	m.primary.PopTo(m.primary.Level - 1)
	m.Sh.mu.Lock()
	m.Sh.Stats.FeasQueries++
	if r == Unknown {
		m.Sh.Stats.Unknown++
		if os.Getenv("GOSMT_DEBUG") != "" {
			fmt.Printf("UNKNOWN feasibility: %s%s\n", c.Pretty(8), m.where())
		}
	}
	m.Sh.mu.Unlock()
	return r
}

// Fork chooses among mutually exclusive, jointly exhaustive conditions.
// Returns the index taken on this path. Alternatives are queued.
func (m *Machine) Fork(conds []*Term) int { return m.forkX(conds, false) }

// forkX: allFeasible says the caller knows every non-false alternative is satisfiable (fresh unconstrained symbol).
func (m *Machine) forkX(conds []*Term, allFeasible bool) int {
	nonFalse := -1
	cnt := 0
	for i, c := range conds {
		if c.IsTrue() {
			return i
		}
		if !c.IsFalse() {
			nonFalse = i
			cnt++
		}
	}
	if cnt == 0 {
		panic(&pathEnd{endInfeasible, "no alternative"})
	}
	if cnt == 1 {
		m.addPC(conds[nonFalse], false)
		return nonFalse
	}
	if m.pos < len(m.prefix) {
		d := m.prefix[m.pos]
		if d.n != len(conds) {
			panic(fmt.Sprintf("non-deterministic replay: decision %d has %d alternatives, recorded %d%s", m.pos, len(conds), d.n, m.where()))
		}
		m.pos++
		m.path = append(m.path, d)
		m.addPC(conds[d.choice], true)
		return d.choice
	}
	if len(conds) > 16 && os.Getenv("GOSMT_DEBUG") != "" {
		fmt.Printf("BIGFORK %d alternatives%s\n", len(conds), m.where())
	}
	if len(m.path) > 6000 {
		panic(&pathEnd{endUnwind, "more than 6000 decisions on one path"})
	}
	feas := make([]int, 0, len(conds))
	last := -1
	for i, c := range conds {
		if !c.IsFalse() {
			last = i
		}
	}
	for i, c := range conds {
		if c.IsFalse() {
			continue
		}
		if len(feas) == 0 && i == last {
			feas = append(feas, i) // all others infeasible: this one holds
			break
		}
		if allFeasible {
			feas = append(feas, i)
			continue
		}
		if r := m.checkPrimary(c); r != Unsat {
			feas = append(feas, i)
		}
	}
	if len(feas) == 0 {
		panic(&pathEnd{endInfeasible, "fork: no feasible alternative"})
	}
	take := feas[0]
	for _, alt := range feas[1:] {
		np := make(Prefix, len(m.path)+1)
		copy(np, m.path)
		np[len(m.path)] = decision{alt, len(conds)}
		m.Sh.push(np)
	}
	d := decision{take, len(conds)}
	m.path = append(m.path, d)
	m.addPC(conds[take], true)
	return take
}

// Branch forks on a boolean condition.
func (m *Machine) Branch(c *Term) bool {
	if c.IsConst() {
		return c.U == 1
	}
	return m.Fork([]*Term{c, m.TT.Not(c)}) == 0
}

func (m *Machine) Assume(c *Term) {
	if c.IsTrue() {
		return
	}
	if c.IsFalse() {
		panic(&pathEnd{endInfeasible, "assume(false)"})
	}
	if m.pos >= len(m.prefix) {
		if r := m.checkPrimary(c); r == Unsat {
			panic(&pathEnd{endInfeasible, "assume"})
		}
	}
	m.addPC(c, false)
}

// Abort stops all workers.
func (sh *Shared) Abort() {
	sh.mu.Lock()
	sh.stop = true
	sh.cond.Broadcast()
	sh.mu.Unlock()
}

// FuncsEncoded lists the functions with bodies this machine interpreted, with SSA instruction counts.
func (m *Machine) FuncsEncoded() map[string]int {
	r := map[string]int{}
	for f := range m.seenFn {
		if f.Blocks == nil || m.isAPI(f) {
			continue
		}
		n := 0
		for _, b := range f.Blocks {
			n += len(b.Instrs)
		}
		r[f.String()] = n
	}
	return r
}

func (m *Machine) CollectSolverStats() {
	sh := m.Sh
	sh.mu.Lock()
	defer sh.mu.Unlock()
	sh.Stats.SolverTime["feasibility("+m.primary.B.Name+")"] += m.primary.Time
	sh.Stats.SolverCalls["feasibility("+m.primary.B.Name+")"] += int64(m.primary.Queries)
	if m.id == 0 {
		sh.InitNotes = append(sh.InitNotes, m.initNotes...)
	}
}

// L lowers Int arithmetic to bit-vectors when every Int symbol is bounded (see lower.go).
func (m *Machine) L(t *Term) *Term {
	if m.Spec.Backend == "nia" {
		return m.liftTerm(t)
	}
	if m.noLower() {
		return t
	}
	return m.lowerTerm(t)
}

// liftTerm: when a term cannot be lifted the constraint is dropped (liftFailed is set): the primary solver
// then over-approximates the path condition (never prunes a feasible path); decide() skips the lifted form.
func (m *Machine) liftTerm(t *Term) *Term {
	r, ok := m.lf.Lift(t)
	if !ok {
		m.lowerFail++
		m.liftFailed = true
		if os.Getenv("GOSMT_DEBUG") != "" {
			fmt.Println("LIFT-FAILED:", m.lf.failed)
		}
		return m.TT.True
	}
	return r
}

func b2i(b bool) int {
	if b {
		return 1
	}
	return 0
}

func (m *Machine) lowerTerm(t *Term) *Term {
	r, ok := m.lw.Lower(t)
	if !ok {
		m.lowerFail++
		return t
	}
	return r
}

// noLower: with the integer-lifting back end (cvc5 --solve-bv-as-int) integers stay integers; with the
// bit-blasting back ends bounded integers are lowered to bit-vectors.
func (m *Machine) noLower() bool {
	return m.Spec.NoLower || (m.Spec.Backend == "bv-as-int" && !m.Spec.ForceLower)
}
