package sym

import (
	"fmt"
	"go/types"
	"math"
	"math/big"
	"net"
	"strconv"
	"strings"
	"time"

	"golang.org/x/tools/go/ssa"
)

func (m *Machine) bigIntType() types.Type {
	if m.bigT != nil {
		return m.bigT
	}
	for _, p := range m.Prog.SSA.AllPackages() {
		if p.Pkg.Path() == "math/big" {
			m.bigT = p.Type("Int").Type()
			return m.bigT
		}
	}
	panic(m.unsupported("math/big not loaded"))
}

func (m *Machine) bigOf(v Value) *Term {
	switch x := v.(type) {
	case PtrV:
		if x.IsNil() {
			panic(m.rtPanic("nil", "nil *big.Int"))
		}
		b, ok := x.C.V.(BigV)
		if !ok {
			panic(m.unsupported(fmt.Sprintf("big.Int cell holds %T", x.C.V)))
		}
		return b.T
	case BigV:
		return x.T
	}
	panic(m.unsupported(fmt.Sprintf("bigOf %T", v)))
}

func (m *Machine) setBig(z Value, t *Term) Value {
	p := z.(PtrV)
	if p.IsNil() {
		panic(m.rtPanic("nil", "nil *big.Int receiver"))
	}
	m.storeCell(p.C, BigV{t})
	return z
}

func (m *Machine) newBig(t *Term) Value {
	c := m.newCell(m.bigIntType())
	c.V = BigV{t}
	return PtrV{C: c}
}

// truncated quotient and remainder (Go's Quo/Rem, and / % on ints)
func (m *Machine) bigQuoRem(x, y *Term) (*Term, *Term) {
	tt := m.TT
	zero := tt.IntConst64(0)
	q := tt.IBin(OIDiv, tt.IAbs(x), tt.IAbs(y))
	xneg := tt.ILt(x, zero)
	yneg := tt.ILt(y, zero)
	diff := tt.Not(tt.Eq(xneg, yneg))
	quo := tt.Ite(diff, tt.INeg(q), q)
	rem := tt.IBin(OISub, x, tt.IBin(OIMul, y, quo))
	return quo, rem
}

func (m *Machine) bigDivZeroCheck(y *Term) {
	if m.Branch(m.TT.Eq(y, m.TT.IntConst64(0))) {
		panic(&goPanic{kind: "divide", msg: "division by zero (math/big)" + m.where()})
	}
}

func (m *Machine) maxBigBytes() int {
	if s, ok := m.Spec.Bounds["big_bytes"]; ok {
		n, _ := strconv.Atoi(s)
		if n > 0 {
			return n
		}
	}
	return 40
}

// bigByteLen forks over the minimal byte length of |v| (0 for v == 0).
func (m *Machine) bigByteLen(abs *Term) int {
	tt := m.TT
	if abs.IsConst() {
		return (abs.Big.BitLen() + 7) / 8
	}
	mx := m.maxBigBytes()
	conds := make([]*Term, 0, mx+2)
	for l := 0; l <= mx; l++ {
		hi := tt.IntConst(new(big.Int).Lsh(big.NewInt(1), uint(8*l)))
		c := tt.ILt(abs, hi)
		if l > 0 {
			lo := tt.IntConst(new(big.Int).Lsh(big.NewInt(1), uint(8*(l-1))))
			c = tt.And(tt.ILe(lo, abs), c)
		}
		conds = append(conds, c)
	}
	conds = append(conds, tt.ILe(tt.IntConst(new(big.Int).Lsh(big.NewInt(1), uint(8*mx))), abs))
	k := m.Fork(conds)
	if k > mx {
		panic(&pathEnd{endUnwind, fmt.Sprintf("big integer longer than big_bytes=%d bytes%s", mx, m.where())})
	}
	return k
}

// bigBytesBE returns the n big-endian bytes of abs (abs < 256^n on this path).
// Symbolic integers get fresh byte symbols tied to the value by one linear constraint
// abs = sum b_i*256^k, which keeps byte-level code (complement, carry, reversal) in linear arithmetic.
func (m *Machine) bigBytesBE(abs *Term, n int) []*Term {
	tt := m.TT
	out := make([]*Term, n)
	if n == 0 {
		return out
	}
	if abs.IsConst() {
		bs := abs.Big.Bytes()
		for i := range out {
			out[i] = tt.BVConst(8, 0)
		}
		for i := 0; i < len(bs) && i < n; i++ {
			out[n-1-i] = tt.BVConst(8, uint64(bs[len(bs)-1-i]))
		}
		return out
	}
	if abs.Op == OIAbs {
		if x, ok := tt.AsSigned(abs.Args[0]); ok && x.S.W%8 == 0 {
			abs = tt.BV2Nat(tt.AbsBV(x))
		}
	}
	if abs.Op == OBV2Nat && abs.Args[0].S.W%8 == 0 {
		// bytes of an unsigned machine integer: plain extracts
		x := abs.Args[0]
		w := x.S.W / 8
		for i := 0; i < n; i++ {
			k := n - 1 - i // byte significance
			if k < w {
				out[i] = tt.Extract(8*k+7, 8*k, x)
			} else {
				out[i] = tt.BVConst(8, 0)
			}
		}
		return out
	}
	m.ufSeq++
	for i := 0; i < n; i++ {
		out[i] = tt.Sym(fmt.Sprintf("$byte.%d.%d", m.ufSeq, i), BV(8))
	}
	m.addPC(tt.Eq(abs, m.bytesToNat(out)), false)
	return out
}

// bytesToNat: big-endian bytes to Int, as a canonical sum (most significant first). Runs of bytes that are
// consecutive extracts of one bit-vector are kept together as bv2nat(extract(...)).
func (m *Machine) bytesToNat(bs []*Term) *Term {
	tt := m.TT
	n := len(bs)
	if n == 0 {
		return tt.IntConst64(0)
	}
	konst := new(big.Int)
	var terms []*Term
	pow := func(k int) *big.Int { return new(big.Int).Lsh(big.NewInt(1), uint(8*k)) }
	i := 0
	for i < n {
		b := bs[i]
		k := n - 1 - i
		if b.IsConst() {
			konst.Add(konst, new(big.Int).Mul(new(big.Int).SetUint64(b.U), pow(k)))
			i++
			continue
		}
		// run of extracts from the same base, descending
		if b.Op == OExtract && b.P1-b.P2 == 7 {
			base := b.Args[0]
			hi := b.P1
			lo := b.P2
			j := i + 1
			for j < n && bs[j].Op == OExtract && bs[j].Args[0] == base && bs[j].P1 == lo-1 && bs[j].P1-bs[j].P2 == 7 {
				lo = bs[j].P2
				j++
			}
			if j > i+1 {
				run := tt.BV2Nat(tt.Extract(hi, lo, base))
				kk := n - j // significance of the run's lowest byte
				if kk > 0 {
					run = tt.IBin(OIMul, run, tt.IntConst(pow(kk)))
				}
				terms = append(terms, run)
				i = j
				continue
			}
		}
		t := tt.BV2Nat(b)
		if k > 0 {
			t = tt.IBin(OIMul, t, tt.IntConst(pow(k)))
		}
		terms = append(terms, t)
		i++
	}
	res := tt.IntConst(konst)
	for _, t := range terms {
		res = tt.IBin(OIAdd, res, t)
	}
	return res
}

func (m *Machine) i64(t *Term) *Term { return t }

func (m *Machine) concreteShift(v Value) uint {
	n, ok := m.concreteInt(v)
	if !ok {
		// fork to concretize small shift amounts
		t := v.(*Term)
		k := m.concretizeBounded(m.TT.Zext(64, t), 512, "big shift")
		if k < 0 {
			panic(&pathEnd{endUnwind, "big.Int shift by more than 512"})
		}
		return uint(k)
	}
	return uint(n)
}

func registerIntrinsics(m *Machine) {
	I := m.intrinsic
	tt := m.TT
	bin := func(op Op) intrinsicFn {
		return func(m *Machine, fr *frame, a []Value, c *ssa.CallCommon) Value {
			return m.setBig(a[0], tt.IBin(op, m.bigOf(a[1]), m.bigOf(a[2])))
		}
	}
	I["(*math/big.Int).Add"] = bin(OIAdd)
	I["(*math/big.Int).Sub"] = bin(OISub)
	I["(*math/big.Int).Mul"] = bin(OIMul)
	I["(*math/big.Int).Quo"] = func(m *Machine, fr *frame, a []Value, c *ssa.CallCommon) Value {
		x, y := m.bigOf(a[1]), m.bigOf(a[2])
		m.bigDivZeroCheck(y)
		q, _ := m.bigQuoRem(x, y)
		return m.setBig(a[0], q)
	}
	I["(*math/big.Int).Rem"] = func(m *Machine, fr *frame, a []Value, c *ssa.CallCommon) Value {
		x, y := m.bigOf(a[1]), m.bigOf(a[2])
		m.bigDivZeroCheck(y)
		_, r := m.bigQuoRem(x, y)
		return m.setBig(a[0], r)
	}
	I["(*math/big.Int).QuoRem"] = func(m *Machine, fr *frame, a []Value, c *ssa.CallCommon) Value {
		x, y := m.bigOf(a[1]), m.bigOf(a[2])
		m.bigDivZeroCheck(y)
		q, r := m.bigQuoRem(x, y)
		m.setBig(a[3], r)
		m.setBig(a[0], q)
		return TupleV{a[0], a[3]}
	}
	I["(*math/big.Int).Div"] = func(m *Machine, fr *frame, a []Value, c *ssa.CallCommon) Value {
		x, y := m.bigOf(a[1]), m.bigOf(a[2])
		m.bigDivZeroCheck(y)
		return m.setBig(a[0], tt.IBin(OIDiv, x, y))
	}
	I["(*math/big.Int).Mod"] = func(m *Machine, fr *frame, a []Value, c *ssa.CallCommon) Value {
		x, y := m.bigOf(a[1]), m.bigOf(a[2])
		m.bigDivZeroCheck(y)
		return m.setBig(a[0], tt.IBin(OIMod, x, y))
	}
	I["(*math/big.Int).Neg"] = func(m *Machine, fr *frame, a []Value, c *ssa.CallCommon) Value {
		return m.setBig(a[0], tt.INeg(m.bigOf(a[1])))
	}
	I["(*math/big.Int).Abs"] = func(m *Machine, fr *frame, a []Value, c *ssa.CallCommon) Value {
		return m.setBig(a[0], tt.IAbs(m.bigOf(a[1])))
	}
	I["(*math/big.Int).Set"] = func(m *Machine, fr *frame, a []Value, c *ssa.CallCommon) Value {
		return m.setBig(a[0], m.bigOf(a[1]))
	}
	I["(*math/big.Int).SetInt64"] = func(m *Machine, fr *frame, a []Value, c *ssa.CallCommon) Value {
		return m.setBig(a[0], tt.BV2Int(a[1].(*Term)))
	}
	I["(*math/big.Int).SetUint64"] = func(m *Machine, fr *frame, a []Value, c *ssa.CallCommon) Value {
		return m.setBig(a[0], tt.BV2Nat(a[1].(*Term)))
	}
	I["math/big.NewInt"] = func(m *Machine, fr *frame, a []Value, c *ssa.CallCommon) Value {
		return m.newBig(tt.BV2Int(a[0].(*Term)))
	}
	I["(*math/big.Int).Sign"] = func(m *Machine, fr *frame, a []Value, c *ssa.CallCommon) Value {
		x := m.bigOf(a[0])
		z := tt.IntConst64(0)
		return tt.Ite(tt.ILt(x, z), tt.BVConst(64, ^uint64(0)), tt.Ite(tt.Eq(x, z), tt.BVConst(64, 0), tt.BVConst(64, 1)))
	}
	I["(*math/big.Int).Cmp"] = func(m *Machine, fr *frame, a []Value, c *ssa.CallCommon) Value {
		x, y := m.bigOf(a[0]), m.bigOf(a[1])
		return tt.Ite(tt.ILt(x, y), tt.BVConst(64, ^uint64(0)), tt.Ite(tt.Eq(x, y), tt.BVConst(64, 0), tt.BVConst(64, 1)))
	}
	I["(*math/big.Int).CmpAbs"] = func(m *Machine, fr *frame, a []Value, c *ssa.CallCommon) Value {
		x, y := tt.IAbs(m.bigOf(a[0])), tt.IAbs(m.bigOf(a[1]))
		return tt.Ite(tt.ILt(x, y), tt.BVConst(64, ^uint64(0)), tt.Ite(tt.Eq(x, y), tt.BVConst(64, 0), tt.BVConst(64, 1)))
	}
	I["(*math/big.Int).IsInt64"] = func(m *Machine, fr *frame, a []Value, c *ssa.CallCommon) Value {
		x := m.bigOf(a[0])
		lo := tt.IntConst(new(big.Int).Neg(new(big.Int).Lsh(big.NewInt(1), 63)))
		hi := tt.IntConst(new(big.Int).Lsh(big.NewInt(1), 63))
		return tt.And(tt.ILe(lo, x), tt.ILt(x, hi))
	}
	I["(*math/big.Int).IsUint64"] = func(m *Machine, fr *frame, a []Value, c *ssa.CallCommon) Value {
		x := m.bigOf(a[0])
		hi := tt.IntConst(new(big.Int).Lsh(big.NewInt(1), 64))
		return tt.And(tt.ILe(tt.IntConst64(0), x), tt.ILt(x, hi))
	}
	I["(*math/big.Int).Int64"] = func(m *Machine, fr *frame, a []Value, c *ssa.CallCommon) Value {
		return tt.Int2BV(64, m.bigOf(a[0]))
	}
	I["(*math/big.Int).Uint64"] = func(m *Machine, fr *frame, a []Value, c *ssa.CallCommon) Value {
		return tt.Int2BV(64, tt.IAbs(m.bigOf(a[0])))
	}
	I["(*math/big.Int).Lsh"] = func(m *Machine, fr *frame, a []Value, c *ssa.CallCommon) Value {
		n := m.concreteShift(a[2])
		return m.setBig(a[0], tt.IBin(OIMul, m.bigOf(a[1]), tt.IntConst(new(big.Int).Lsh(big.NewInt(1), n))))
	}
	I["(*math/big.Int).Rsh"] = func(m *Machine, fr *frame, a []Value, c *ssa.CallCommon) Value {
		n := m.concreteShift(a[2])
		// arithmetic shift = floor division (SMT div is floor for positive divisor)
		return m.setBig(a[0], tt.IBin(OIDiv, m.bigOf(a[1]), tt.IntConst(new(big.Int).Lsh(big.NewInt(1), n))))
	}
	I["(*math/big.Int).BitLen"] = func(m *Machine, fr *frame, a []Value, c *ssa.CallCommon) Value {
		x := tt.IAbs(m.bigOf(a[0]))
		if x.IsConst() {
			return tt.BVConst(64, uint64(x.Big.BitLen()))
		}
		// one term (ite chain over the bit length) instead of a fork per length
		mx := m.maxBigBytes() * 8
		m.requireWithin(x, mx)
		l := tt.BVConst(64, uint64(mx))
		for k := mx - 1; k >= 0; k-- {
			l = tt.Ite(tt.ILt(x, tt.IntConst(new(big.Int).Lsh(big.NewInt(1), uint(k)))), tt.BVConst(64, uint64(k)), l)
		}
		return l
	}
	I["(*math/big.Int).Bytes"] = func(m *Machine, fr *frame, a []Value, c *ssa.CallCommon) Value {
		if bs, ok := m.natBytes[m.bigOf(a[0])]; ok {
			return m.sliceFromBytes(append([]*Term{}, bs...))
		}
		abs := tt.IAbs(m.bigOf(a[0]))
		if !abs.IsConst() && lenOnlyUse(fr) {
			// only len(x.Bytes()) is observed: give the length as one term instead of forking
			mx := m.maxBigBytes()
			m.requireWithin(abs, 8*mx)
			l := tt.BVConst(64, uint64(mx))
			for k := mx - 1; k >= 0; k-- {
				l = tt.Ite(tt.ILt(abs, tt.IntConst(new(big.Int).Lsh(big.NewInt(1), uint(8*k)))), tt.BVConst(64, uint64(k)), l)
			}
			return SliceV{SymLen: l}
		}
		n := m.bigByteLen(abs)
		return m.sliceFromBytes(m.bigBytesBE(abs, n))
	}
	I["(*math/big.Int).FillBytes"] = func(m *Machine, fr *frame, a []Value, c *ssa.CallCommon) Value {
		abs := tt.IAbs(m.bigOf(a[0]))
		buf := a[1].(SliceV)
		n := m.bigByteLen(abs)
		if n > buf.Len {
			panic(&goPanic{kind: "explicit", msg: "math/big: buffer too small to fit value"})
		}
		bs := m.bigBytesBE(abs, buf.Len)
		for i, cl := range buf.cells() {
			m.storeCell(cl, bs[i])
		}
		return buf
	}
	I["(*math/big.Int).SetBytes"] = func(m *Machine, fr *frame, a []Value, c *ssa.CallCommon) Value {
		bs := m.bytesOfSlice(a[1].(SliceV))
		n := m.bytesToNat(bs)
		// remember the big-endian bytes this value was built from when the leading byte is a non-zero
		// constant: x.Bytes() of the very same term is then those bytes (no fresh symbols, no uniqueness query)
		if len(bs) > 0 && bs[0].IsConst() && bs[0].U != 0 && !n.IsConst() {
			m.natBytes[n] = append([]*Term{}, bs...)
		}
		return m.setBig(a[0], n)
	}
	I["(*math/big.Int).String"] = func(m *Machine, fr *frame, a []Value, c *ssa.CallCommon) Value {
		p := a[0].(PtrV)
		if p.IsNil() {
			return m.mkString("<nil>")
		}
		x := m.bigOf(a[0])
		if x.IsConst() {
			return m.mkString(x.Big.String())
		}
		return StringV{Opaque: tt.UF("$decstr", BV(64), x), DecOf: x}
	}
	I["(*math/big.Int).Text"] = func(m *Machine, fr *frame, a []Value, c *ssa.CallCommon) Value {
		x := m.bigOf(a[0])
		base, ok := m.concreteInt(a[1])
		if x.IsConst() && ok {
			return m.mkString(x.Big.Text(int(base)))
		}
		return StringV{Opaque: tt.UF("$bigtext", BV(64), x, a[1].(*Term))}
	}
	I["(*math/big.Int).SetString"] = func(m *Machine, fr *frame, a []Value, c *ssa.CallCommon) Value {
		if sv := a[1].(StringV); sv.DecOf != nil {
			if b, okb := m.concreteInt(a[2]); okb && b == 10 {
				m.setBig(a[0], sv.DecOf)
				return TupleV{a[0], tt.True}
			}
		}
		s, ok := a[1].(StringV).Concrete()
		base, ok2 := m.concreteInt(a[2])
		if !ok || !ok2 {
			panic(m.unsupported("big.Int.SetString on symbolic string"))
		}
		v, good := new(big.Int).SetString(s, int(base))
		if !good {
			return TupleV{PtrV{}, tt.False}
		}
		m.setBig(a[0], tt.IntConst(v))
		return TupleV{a[0], tt.True}
	}
	I["(*math/big.Int).Exp"] = func(m *Machine, fr *frame, a []Value, c *ssa.CallCommon) Value {
		x, y := m.bigOf(a[1]), m.bigOf(a[2])
		var md *Term
		if !a[3].(PtrV).IsNil() {
			md = m.bigOf(a[3])
		}
		if x.IsConst() && y.IsConst() && (md == nil || md.IsConst()) {
			var mm *big.Int
			if md != nil {
				mm = md.Big
			}
			return m.setBig(a[0], tt.IntConst(new(big.Int).Exp(x.Big, y.Big, mm)))
		}
		panic(m.unsupported("symbolic big.Int.Exp"))
	}
	// two's complement bitwise ops through a bounded width
	bitop := func(op Op) intrinsicFn {
		return func(m *Machine, fr *frame, a []Value, c *ssa.CallCommon) Value {
			x, y := m.bigOf(a[1]), m.bigOf(a[2])
			if x.IsConst() && y.IsConst() {
				r := new(big.Int)
				switch op {
				case OBvAnd:
					r.And(x.Big, y.Big)
				case OBvOr:
					r.Or(x.Big, y.Big)
				default:
					r.Xor(x.Big, y.Big)
				}
				return m.setBig(a[0], tt.IntConst(r))
			}
			w := 8*m.maxBigBytes() + 8
			m.requireWithin(x, w-1)
			m.requireWithin(y, w-1)
			bx, by := tt.Int2BV(w, x), tt.Int2BV(w, y)
			r := tt.mk(op, BV(w), 0, 0, "", bx, by)
			return m.setBig(a[0], m.wideBV2Int(r))
		}
	}
	I["(*math/big.Int).And"] = bitop(OBvAnd)
	I["(*math/big.Int).Or"] = bitop(OBvOr)
	I["(*math/big.Int).Xor"] = bitop(OBvXor)
	I["(*math/big.Int).Not"] = func(m *Machine, fr *frame, a []Value, c *ssa.CallCommon) Value {
		// ^x = -x-1
		return m.setBig(a[0], tt.IBin(OISub, tt.INeg(m.bigOf(a[1])), tt.IntConst64(1)))
	}

	// ---- bytes ----
	I["bytes.Equal"] = func(m *Machine, fr *frame, a []Value, c *ssa.CallCommon) Value {
		return m.bytesEq(m.bytesOfSlice(a[0].(SliceV)), m.bytesOfSlice(a[1].(SliceV)))
	}
	I["bytes.Compare"] = func(m *Machine, fr *frame, a []Value, c *ssa.CallCommon) Value {
		x, y := m.bytesOfSlice(a[0].(SliceV)), m.bytesOfSlice(a[1].(SliceV))
		lt := m.bytesLess(x, y, false)
		eq := m.bytesEq(x, y)
		return tt.Ite(lt, tt.BVConst(64, ^uint64(0)), tt.Ite(eq, tt.BVConst(64, 0), tt.BVConst(64, 1)))
	}
	I["bytes.HasPrefix"] = func(m *Machine, fr *frame, a []Value, c *ssa.CallCommon) Value {
		x, y := m.bytesOfSlice(a[0].(SliceV)), m.bytesOfSlice(a[1].(SliceV))
		if len(x) < len(y) {
			return tt.False
		}
		return m.bytesEq(x[:len(y)], y)
	}
	I["strings.HasPrefix"] = func(m *Machine, fr *frame, a []Value, c *ssa.CallCommon) Value {
		x, y := a[0].(StringV).B, a[1].(StringV).B
		if len(x) < len(y) {
			return tt.False
		}
		return m.bytesEq(x[:len(y)], y)
	}
	I["strings.Compare"] = func(m *Machine, fr *frame, a []Value, c *ssa.CallCommon) Value {
		x, y := a[0].(StringV).B, a[1].(StringV).B
		lt := m.bytesLess(x, y, false)
		eq := m.bytesEq(x, y)
		return tt.Ite(lt, tt.BVConst(64, ^uint64(0)), tt.Ite(eq, tt.BVConst(64, 0), tt.BVConst(64, 1)))
	}
	I["internal/bytealg.Equal"] = I["bytes.Equal"]

	// ---- errors / fmt ----
	I["errors.New"] = func(m *Machine, fr *frame, a []Value, c *ssa.CallCommon) Value {
		// each call site execution yields a distinct non-nil error; identity by allocation
		cell := &Cell{Epoch: m.epoch, V: a[0]}
		return IfaceV{T: opaqueErrType, V: PtrV{C: cell}}
	}
	I["fmt.Errorf"] = func(m *Machine, fr *frame, a []Value, c *ssa.CallCommon) Value {
		cell := &Cell{Epoch: m.epoch, V: a[0]}
		return IfaceV{T: opaqueErrType, V: PtrV{C: cell}}
	}
	I["fmt.Sprintf"] = func(m *Machine, fr *frame, a []Value, c *ssa.CallCommon) Value {
		return m.sprintf(a[0].(StringV), a[1].(SliceV))
	}
	I["fmt.Sprint"] = func(m *Machine, fr *frame, a []Value, c *ssa.CallCommon) Value {
		return m.freshOpaqueString("sprint")
	}
	I["fmt.Sprintln"] = I["fmt.Sprint"]
	noop := func(m *Machine, fr *frame, a []Value, c *ssa.CallCommon) Value {
		if c == nil {
			return nil
		}
		res := c.Signature().Results()
		switch res.Len() {
		case 0:
			return nil
		case 1:
			return m.zero(res.At(0).Type())
		}
		return m.zero(res)
	}
	for _, n := range []string{"fmt.Println", "fmt.Printf", "fmt.Print", "fmt.Fprintf", "fmt.Fprintln", "fmt.Fprint",
		"runtime.Gosched", "runtime.GC", "runtime.KeepAlive", "os.Exit", "runtime/debug.PrintStack", "runtime.SetFinalizer",
		"time.Sleep"} {
		I[n] = noop
	}
	I["(*errors.errorString).Error"] = nil
	delete(I, "(*errors.errorString).Error")

	// ---- math (concrete) ----
	f1 := func(f func(float64) float64) intrinsicFn {
		return func(m *Machine, fr *frame, a []Value, c *ssa.CallCommon) Value {
			return FloatV(f(float64(a[0].(FloatV))))
		}
	}
	I["math.Ceil"] = f1(math.Ceil)
	I["math.Floor"] = f1(math.Floor)
	I["math.Log2"] = f1(math.Log2)
	I["math.Log"] = f1(math.Log)
	I["math.Sqrt"] = f1(math.Sqrt)
	I["math.Exp"] = f1(math.Exp)
	I["math.Abs"] = f1(math.Abs)
	I["math.Pow"] = func(m *Machine, fr *frame, a []Value, c *ssa.CallCommon) Value {
		return FloatV(math.Pow(float64(a[0].(FloatV)), float64(a[1].(FloatV))))
	}

	// ---- math/bits ----
	I["math/bits.Add64"] = func(m *Machine, fr *frame, a []Value, c *ssa.CallCommon) Value {
		x, y, ci := a[0].(*Term), a[1].(*Term), a[2].(*Term)
		s := tt.BvBin(OBvAdd, tt.BvBin(OBvAdd, x, y), ci)
		// carry = ((x & y) | ((x | y) &^ sum)) >> 63
		cr := tt.BvBin(OBvLshr, tt.BvBin(OBvOr, tt.BvBin(OBvAnd, x, y), tt.BvBin(OBvAnd, tt.BvBin(OBvOr, x, y), tt.BvNot(s))), tt.BVConst(64, 63))
		return TupleV{s, cr}
	}
	I["math/bits.Sub64"] = func(m *Machine, fr *frame, a []Value, c *ssa.CallCommon) Value {
		x, y, bi := a[0].(*Term), a[1].(*Term), a[2].(*Term)
		d := tt.BvBin(OBvSub, tt.BvBin(OBvSub, x, y), bi)
		br := tt.BvBin(OBvLshr, tt.BvBin(OBvOr, tt.BvBin(OBvAnd, tt.BvNot(x), y), tt.BvBin(OBvAnd, tt.BvNot(tt.BvBin(OBvXor, x, y)), d)), tt.BVConst(64, 63))
		return TupleV{d, br}
	}
	I["math/bits.Mul64"] = func(m *Machine, fr *frame, a []Value, c *ssa.CallCommon) Value {
		x, y := a[0].(*Term), a[1].(*Term)
		if x.IsConst() && y.IsConst() {
			p := new(big.Int).Mul(new(big.Int).SetUint64(x.U), new(big.Int).SetUint64(y.U))
			lo := new(big.Int).And(p, new(big.Int).SetUint64(^uint64(0))).Uint64()
			hi := new(big.Int).Rsh(p, 64).Uint64()
			return TupleV{tt.BVConst(64, hi), tt.BVConst(64, lo)}
		}
		p := tt.IBin(OIMul, tt.BV2Nat(x), tt.BV2Nat(y))
		lo := tt.Int2BV(64, p)
		hi := tt.Int2BV(64, tt.IBin(OIDiv, p, tt.IntConst(new(big.Int).Lsh(big.NewInt(1), 64))))
		return TupleV{hi, lo}
	}

	// leading zeros / bit length / popcount as short bit-test chains (the table-driven library code turns
	// into 256-entry ite chains that stall the solver)
	lz := func(x *Term) *Term {
		w := x.S.W
		r := tt.BVConst(64, uint64(w))
		for i := 0; i < w; i++ { // lowest set bit considered first, the highest set bit wins last
			bit := tt.Eq(tt.Extract(i, i, x), tt.BVConst(1, 1))
			r = tt.Ite(bit, tt.BVConst(64, uint64(w-1-i)), r)
		}
		return r
	}
	for _, w := range []int{8, 16, 32, 64} {
		w := w
		I[fmt.Sprintf("math/bits.LeadingZeros%d", w)] = func(m *Machine, fr *frame, a []Value, c *ssa.CallCommon) Value {
			return lz(a[0].(*Term))
		}
		I[fmt.Sprintf("math/bits.Len%d", w)] = func(m *Machine, fr *frame, a []Value, c *ssa.CallCommon) Value {
			return tt.BvBin(OBvSub, tt.BVConst(64, uint64(w)), lz(a[0].(*Term)))
		}
		I[fmt.Sprintf("math/bits.OnesCount%d", w)] = func(m *Machine, fr *frame, a []Value, c *ssa.CallCommon) Value {
			x := a[0].(*Term)
			r := tt.BVConst(64, 0)
			for i := 0; i < w; i++ {
				r = tt.BvBin(OBvAdd, r, tt.Zext(64, tt.Extract(i, i, x)))
			}
			return r
		}
		I[fmt.Sprintf("math/bits.TrailingZeros%d", w)] = func(m *Machine, fr *frame, a []Value, c *ssa.CallCommon) Value {
			x := a[0].(*Term)
			r := tt.BVConst(64, uint64(w))
			for i := w - 1; i >= 0; i-- {
				bit := tt.Eq(tt.Extract(i, i, x), tt.BVConst(1, 1))
				r = tt.Ite(bit, tt.BVConst(64, uint64(i)), r)
			}
			return r
		}
	}
	I["math/bits.LeadingZeros"] = I["math/bits.LeadingZeros64"]
	I["math/bits.Len"] = I["math/bits.Len64"]
	I["math/bits.OnesCount"] = I["math/bits.OnesCount64"]
	I["math/bits.TrailingZeros"] = I["math/bits.TrailingZeros64"]

	// ---- sync / atomic / log: no-ops in sequential harnesses ----
	// handled by pkgIntrinsic

	// ---- sort ----
	I["sort.Slice"] = func(m *Machine, fr *frame, a []Value, c *ssa.CallCommon) Value {
		m.sortSlice(fr, a[0], a[1].(FuncV), false)
		return nil
	}
	I["sort.SliceStable"] = func(m *Machine, fr *frame, a []Value, c *ssa.CallCommon) Value {
		m.sortSlice(fr, a[0], a[1].(FuncV), true)
		return nil
	}

	// ---- hashes ----
	I["crypto/sha256.Sum256"] = func(m *Machine, fr *frame, a []Value, c *ssa.CallCommon) Value {
		out := m.idealHash("sha256", 32, m.bytesOfSlice(a[0].(SliceV)))
		av := make(ArrayV, 32)
		for i, b := range out {
			av[i] = b
		}
		return av
	}
	I["crypto/sha256.New"] = func(m *Machine, fr *frame, a []Value, c *ssa.CallCommon) Value {
		return m.newHasher("sha256", 32)
	}
	I["crypto/sha512.New"] = func(m *Machine, fr *frame, a []Value, c *ssa.CallCommon) Value {
		return m.newHasher("sha512", 64)
	}
	I["golang.org/x/crypto/ripemd160.New"] = func(m *Machine, fr *frame, a []Value, c *ssa.CallCommon) Value {
		return m.newHasher("ripemd160", 20)
	}
	I["golang.org/x/crypto/sha3.NewLegacyKeccak256"] = func(m *Machine, fr *frame, a []Value, c *ssa.CallCommon) Value {
		return m.newHasher("keccak256", 32)
	}
	I["hash/fnv.New64a"] = func(m *Machine, fr *frame, a []Value, c *ssa.CallCommon) Value {
		return m.newHasher("fnv64a", 8)
	}
	I["hash/crc32.ChecksumIEEE"] = func(m *Machine, fr *frame, a []Value, c *ssa.CallCommon) Value {
		out := m.idealHash("crc32", 4, m.bytesOfSlice(a[0].(SliceV)))
		return tt.Concat(tt.Concat(out[0], out[1]), tt.Concat(out[2], out[3]))
	}

	// ---- strconv / hex on concrete data ----
	I["strconv.Itoa"] = func(m *Machine, fr *frame, a []Value, c *ssa.CallCommon) Value {
		n, ok := m.concreteInt(a[0])
		if !ok {
			return m.freshOpaqueString("itoa")
		}
		return m.mkString(strconv.Itoa(int(n)))
	}
	I["encoding/hex.EncodeToString"] = func(m *Machine, fr *frame, a []Value, c *ssa.CallCommon) Value {
		bs := m.bytesOfSlice(a[0].(SliceV))
		const hexd = "0123456789abcdef"
		out := make([]*Term, 0, 2*len(bs))
		for _, b := range bs {
			if b.IsConst() {
				out = append(out, tt.BVConst(8, uint64(hexd[b.U>>4])), tt.BVConst(8, uint64(hexd[b.U&15])))
				continue
			}
			hi := tt.BvBin(OBvLshr, b, tt.BVConst(8, 4))
			lo := tt.BvBin(OBvAnd, b, tt.BVConst(8, 15))
			out = append(out, m.hexDigit(hi), m.hexDigit(lo))
		}
		return StringV{B: out, HexOf: bs}
	}

	// ---- time ----
	I["time.Now"] = func(m *Machine, fr *frame, a []Value, c *ssa.CallCommon) Value {
		panic(m.unsupported("time.Now (stub it per harness)"))
	}
	// ---- reflect identity ----
	registerMoreIntrinsics(m)
}

func (m *Machine) hexDigit(n *Term) *Term {
	tt := m.TT
	return tt.Ite(tt.BvCmp(OBvUlt, n, tt.BVConst(8, 10)), tt.BvBin(OBvAdd, n, tt.BVConst(8, '0')), tt.BvBin(OBvAdd, n, tt.BVConst(8, 'a'-10)))
}

func (m *Machine) requireWithin(x *Term, bits int) {
	tt := m.TT
	lim := tt.IntConst(new(big.Int).Lsh(big.NewInt(1), uint(bits)))
	in := tt.And(tt.ILe(tt.INeg(lim), x), tt.ILt(x, lim))
	if !m.Branch(in) {
		panic(&pathEnd{endUnwind, fmt.Sprintf("big integer outside ±2^%d in bitwise op", bits)})
	}
}

// wideBV2Int: signed value of a wide bit-vector.
func (m *Machine) wideBV2Int(a *Term) *Term {
	tt := m.TT
	w := a.S.W
	n := tt.BV2Nat(a)
	top := tt.Extract(w-1, w-1, a)
	return tt.Ite(tt.Eq(top, tt.BVConst(1, 1)), tt.IBin(OISub, n, tt.IntConst(new(big.Int).Lsh(big.NewInt(1), uint(w)))), n)
}

// sprintf: concrete when all args concrete ints/strings; opaque otherwise.
func (m *Machine) sprintf(format StringV, args SliceV) Value {
	f, ok := format.Concrete()
	if !ok {
		return m.freshOpaqueString("sprintf")
	}
	var gargs []interface{}
	for _, c := range args.cells() {
		iv, ok := c.V.(IfaceV)
		if !ok {
			return m.freshOpaqueString("sprintf")
		}
		switch x := iv.V.(type) {
		case *Term:
			if !x.IsConst() {
				return m.freshOpaqueString("sprintf")
			}
			if x.S.K == SBool {
				gargs = append(gargs, x.U == 1)
			} else if isSigned(iv.T) {
				gargs = append(gargs, x.SignedVal())
			} else {
				gargs = append(gargs, x.U)
			}
		case StringV:
			s, ok := x.Concrete()
			if !ok {
				return m.freshOpaqueString("sprintf")
			}
			gargs = append(gargs, s)
		default:
			return m.freshOpaqueString("sprintf")
		}
	}
	return m.mkString(fmt.Sprintf(f, gargs...))
}

// ---- ideal hash ----

func (m *Machine) idealHash(kind string, outLen int, in []*Term) []*Term {
	tt := m.TT
	name := fmt.Sprintf("$%s/%d", kind, len(in))
	var digest *Term
	allConst := true
	for _, b := range in {
		if !b.IsConst() {
			allConst = false
		}
	}
	_ = allConst
	if len(in) == 0 {
		digest = tt.Sym(name, BV(8*outLen))
	} else {
		// pack input into one wide bit-vector
		x := in[0]
		for _, b := range in[1:] {
			x = tt.Concat(x, b)
		}
		digest = tt.UF(name, BV(8*outLen), x)
	}
	out := make([]*Term, outLen)
	for i := range out {
		out[i] = tt.Extract(8*(outLen-i)-1, 8*(outLen-i-1), digest)
	}
	// collision-freedom instantiated against earlier applications on this path
	apps := m.hashApps[kind]
	dup := false
	for _, ap := range apps {
		if len(ap.out) > 0 && ap.dig == digest {
			dup = true
			break
		}
	}
	if !dup {
		for _, ap := range apps {
			if len(ap.in) != len(in) {
				m.addPC(tt.Not(tt.Eq(ap.dig, digest)), false)
			} else {
				m.addPC(tt.Implies(tt.Eq(ap.dig, digest), m.bytesEq(ap.in, in)), false)
			}
		}
		// ideal hash: a digest is never a "structured" value chosen independently of the hash: its bytes 2..9
		// are not all zero (probability 2^-64 for a real hash). This excludes the all-zero sentinel and the
		// sparse symbolic 32-byte values harnesses use for leaves / forged roots. Short digests: non-zero.
		if outLen >= 16 {
			mid := tt.Extract(8*(outLen-2)-1, 8*(outLen-10), digest)
			m.addPC(tt.Not(tt.Eq(mid, tt.BVConst(64, 0))), false)
		} else if w := 8 * outLen; w <= 64 {
			m.addPC(tt.Not(tt.Eq(digest, tt.BVConst(w, 0))), false)
		}
		m.hashApps[kind] = append(apps, hashApp{in: in, out: out, dig: digest})
	}
	return out
}

type hasherState struct {
	kind   string
	outLen int
	buf    []*Term
}

func (m *Machine) newHasher(kind string, outLen int) Value {
	m.ufSeq++
	id := m.ufSeq
	if m.hashers == nil {
		m.hashers = map[int]*hasherState{}
	}
	m.hashers[id] = &hasherState{kind: kind, outLen: outLen}
	return IfaceV{T: opaqueHashType, V: OpaqueV{Kind: "hasher", ID: m.TT.IntConst64(int64(id))}}
}

var opaqueRandType = types.NewNamed(types.NewTypeName(0, nil, "engineRandSource", nil), types.NewStruct(nil, nil), nil)

var opaqueHashType = types.NewNamed(types.NewTypeName(0, nil, "engineHasher", nil), types.NewStruct(nil, nil), nil)

func (m *Machine) opaqueMethod(fr *frame, ov OpaqueV, iv IfaceV, name string, args []Value, c *ssa.CallCommon) Value {
	tt := m.TT
	switch {
	case ov.Kind == "hasher":
		h := m.hashers[int(ov.ID.Big.Int64())]
		switch name {
		case "Write":
			bs := m.bytesOfSlice(args[0].(SliceV))
			h.buf = append(h.buf[:len(h.buf):len(h.buf)], bs...)
			return TupleV{tt.BVConst(64, uint64(len(bs))), IfaceV{}}
		case "Sum":
			out := m.idealHash(h.kind, h.outLen, h.buf)
			pre := args[0].(SliceV)
			// append semantics: writes in place when the capacity of `pre` allows (callers rely on it)
			return m.appendOp(pre, m.sliceFromBytes(out), types.NewSlice(types.Typ[types.Uint8]))
		case "Sum64":
			out := m.idealHash(h.kind, h.outLen, h.buf)
			r := out[0]
			for _, b := range out[1:] {
				r = tt.Concat(r, b)
			}
			return r
		case "Reset":
			h.buf = nil
			return nil
		case "Size":
			return tt.BVConst(64, uint64(h.outLen))
		case "BlockSize":
			return tt.BVConst(64, 64)
		}
	case ov.Kind == "error" || strings.HasPrefix(ov.Kind, "runtime.Error"):
		if name == "Error" {
			return m.freshOpaqueString("errmsg")
		}
	}
	if h, ok := m.opaqueHandlers[ov.Kind]; ok {
		return h(m, fr, ov, name, args, c)
	}
	panic(m.unsupported("method " + name + " on opaque " + ov.Kind))
}

// ---- sort.Slice: insertion sort driving the real less closure ----

func (m *Machine) sortSlice(fr *frame, sl Value, less FuncV, stable bool) {
	iv, ok := sl.(IfaceV)
	if !ok {
		panic(m.unsupported("sort.Slice arg"))
	}
	s := iv.V.(SliceV)
	n := s.Len
	cells := s.cells()
	// unstable sort: ties may end in any order -> choose a permutation first when asked to
	if !stable && m.stubs["sortties"] == "symbolic" && n > 1 {
		vals := make([]Value, n)
		for i, c := range cells {
			vals[i] = m.loadCell(c)
		}
		rest := append([]Value(nil), vals...)
		for i := 0; i < n-1; i++ {
			k := m.NondetRange("sortperm", len(rest))
			m.storeCell(cells[i], rest[k])
			rest = append(rest[:k], rest[k+1:]...)
		}
		m.storeCell(cells[n-1], rest[0])
	}
	callLess := func(i, j int) bool {
		r := m.callValue(fr, less, []Value{m.TT.BVConst(64, uint64(i)), m.TT.BVConst(64, uint64(j))}, nil, false)
		return m.Branch(r.(*Term))
	}
	for i := 1; i < n; i++ {
		for j := i; j > 0 && callLess(j, j-1); j-- {
			a, b := m.loadCell(cells[j]), m.loadCell(cells[j-1])
			m.storeCell(cells[j], b)
			m.storeCell(cells[j-1], a)
		}
	}
}

// pkgIntrinsic gives package-level policies (no-ops for sync, log ...).
func (m *Machine) pkgIntrinsic(fn *ssa.Function) intrinsicFn {
	path := fn.Pkg.Pkg.Path()
	switch path {
	case "sync":
		recv := ""
		if fn.Signature.Recv() != nil {
			recv = fn.Signature.Recv().Type().String()
		}
		if strings.Contains(recv, "Mutex") || strings.Contains(recv, "WaitGroup") {
			return func(m *Machine, fr *frame, a []Value, c *ssa.CallCommon) Value {
				if fn.Name() == "TryLock" {
					return m.TT.True
				}
				return nil
			}
		}
		if strings.Contains(recv, "Once") && fn.Name() == "Do" {
			return func(m *Machine, fr *frame, a []Value, c *ssa.CallCommon) Value {
				p := a[0].(PtrV)
				done := p.C.Kids[0]
				if t, ok := done.V.(*Term); ok && t.IsConst() && t.U == 0 {
					m.storeCell(done, m.TT.BVConst(t.S.W, 1))
					m.callValue(fr, a[1], nil, nil, false)
				} else if _, ok := done.V.(*Term); !ok {
					// atomic.Uint32 struct in newer Go: treat via ghost flag
					key := fmt.Sprintf("once:%p", p.C)
					if m.ghost[key] == nil {
						m.ghost[key] = true
						m.callValue(fr, a[1], nil, nil, false)
					}
				}
				return nil
			}
		}
	case "sync/atomic":
		return m.atomicIntrinsic(fn)
	case "log", "github.com/ontio/ontology/common/log":
		if fn.Signature.Results().Len() == 0 {
			return func(m *Machine, fr *frame, a []Value, c *ssa.CallCommon) Value { return nil }
		}
	}
	return nil
}

func (m *Machine) atomicIntrinsic(fn *ssa.Function) intrinsicFn {
	name := fn.Name()
	isMethod := fn.Signature.Recv() != nil
	cellOf := func(a Value) *Cell {
		p := a.(PtrV)
		if isMethod {
			// atomic.Int32 etc: struct{ _ noCopy; v int32 } (layout varies); pick the last scalar kid
			c := p.C
			for c.Kids != nil {
				c = c.Kids[len(c.Kids)-1]
			}
			return c
		}
		return p.C
	}
	switch {
	case strings.HasPrefix(name, "Load"):
		return func(m *Machine, fr *frame, a []Value, c *ssa.CallCommon) Value { return m.loadCell(cellOf(a[0])) }
	case strings.HasPrefix(name, "Store"):
		return func(m *Machine, fr *frame, a []Value, c *ssa.CallCommon) Value {
			m.storeCell(cellOf(a[0]), a[1])
			return nil
		}
	case strings.HasPrefix(name, "Add"):
		return func(m *Machine, fr *frame, a []Value, c *ssa.CallCommon) Value {
			cl := cellOf(a[0])
			nv := m.TT.BvBin(OBvAdd, cl.V.(*Term), a[1].(*Term))
			m.storeCell(cl, nv)
			return nv
		}
	case strings.HasPrefix(name, "Swap"):
		return func(m *Machine, fr *frame, a []Value, c *ssa.CallCommon) Value {
			cl := cellOf(a[0])
			old := m.loadCell(cl)
			m.storeCell(cl, a[1])
			return old
		}
	case strings.HasPrefix(name, "CompareAndSwap"):
		return func(m *Machine, fr *frame, a []Value, c *ssa.CallCommon) Value {
			cl := cellOf(a[0])
			old := m.loadCell(cl)
			if m.Branch(m.valueEq(old, a[1])) {
				m.storeCell(cl, a[2])
				return m.TT.True
			}
			return m.TT.False
		}
	}
	return nil
}

// cellAddr gives a cell a stable fake address (distinct per cell, deterministic along a path).
func (m *Machine) cellAddr(c *Cell) uint64 {
	if m.addrs == nil {
		m.addrs = map[*Cell]uint64{}
	}
	if a, ok := m.addrs[c]; ok {
		return a
	}
	m.addrSeq++
	a := 0xc000000000 + m.addrSeq*64
	m.addrs[c] = a
	return a
}

func registerMoreIntrinsics(m *Machine) {
	I := m.intrinsic
	tt := m.TT
	registerCryptoIntrinsics(m)
	// strings.Builder (its copy check uses unsafe): modelled on its buf field
	sbBuf := func(a Value) *Cell {
		p := a.(PtrV)
		if p.IsNil() {
			panic(m.rtPanic("nil", "nil *strings.Builder"))
		}
		return p.C.Kids[1]
	}
	sbAppend := func(m *Machine, a Value, bs []*Term) {
		c := sbBuf(a)
		cur, _ := c.V.(SliceV)
		m.storeCell(c, m.appendOp(cur, m.sliceFromBytes(bs), types.NewSlice(types.Typ[types.Uint8])))
	}
	I["(*strings.Builder).WriteString"] = func(m *Machine, fr *frame, a []Value, c *ssa.CallCommon) Value {
		sv := a[1].(StringV)
		if sv.Opaque != nil {
			panic(m.unsupported("strings.Builder.WriteString of an opaque string"))
		}
		sbAppend(m, a[0], sv.B)
		return TupleV{tt.BVConst(64, uint64(len(sv.B))), IfaceV{}}
	}
	I["(*strings.Builder).WriteByte"] = func(m *Machine, fr *frame, a []Value, c *ssa.CallCommon) Value {
		sbAppend(m, a[0], []*Term{a[1].(*Term)})
		return IfaceV{}
	}
	I["(*strings.Builder).Write"] = func(m *Machine, fr *frame, a []Value, c *ssa.CallCommon) Value {
		bs := m.bytesOfSlice(a[1].(SliceV))
		sbAppend(m, a[0], bs)
		return TupleV{tt.BVConst(64, uint64(len(bs))), IfaceV{}}
	}
	I["(*strings.Builder).WriteRune"] = func(m *Machine, fr *frame, a []Value, c *ssa.CallCommon) Value {
		r, ok := m.concreteInt(a[1])
		if !ok || r >= 0x80 {
			panic(m.unsupported("strings.Builder.WriteRune of a symbolic or non-ASCII rune"))
		}
		sbAppend(m, a[0], []*Term{tt.BVConst(8, uint64(r))})
		return TupleV{tt.BVConst(64, 1), IfaceV{}}
	}
	I["(*strings.Builder).String"] = func(m *Machine, fr *frame, a []Value, c *ssa.CallCommon) Value {
		cur, _ := sbBuf(a[0]).V.(SliceV)
		return StringV{B: m.bytesOfSlice(cur)}
	}
	I["(*strings.Builder).Len"] = func(m *Machine, fr *frame, a []Value, c *ssa.CallCommon) Value {
		cur, _ := sbBuf(a[0]).V.(SliceV)
		return tt.BVConst(64, uint64(cur.Len))
	}
	I["(*strings.Builder).Grow"] = func(m *Machine, fr *frame, a []Value, c *ssa.CallCommon) Value { return nil }
	I["(*strings.Builder).Reset"] = func(m *Machine, fr *frame, a []Value, c *ssa.CallCommon) Value {
		m.storeCell(sbBuf(a[0]), SliceV{})
		return nil
	}
	// functions that are only ever called on concrete strings: executed natively
	I["net.SplitHostPort"] = func(m *Machine, fr *frame, a []Value, c *ssa.CallCommon) Value {
		s, ok := a[0].(StringV).Concrete()
		if !ok {
			panic(m.unsupported("net.SplitHostPort on a symbolic string"))
		}
		h, p, err := net.SplitHostPort(s)
		if err != nil {
			return TupleV{m.mkString(""), m.mkString(""), m.freshError("SplitHostPort")}
		}
		return TupleV{m.mkString(h), m.mkString(p), IfaceV{}}
	}
	I["strings.ToLower"] = func(m *Machine, fr *frame, a []Value, c *ssa.CallCommon) Value {
		s, ok := a[0].(StringV).Concrete()
		if !ok {
			panic(m.unsupported("strings.ToLower on a symbolic string"))
		}
		return m.mkString(strings.ToLower(s))
	}
	I["strings.LastIndex"] = func(m *Machine, fr *frame, a []Value, c *ssa.CallCommon) Value {
		s, ok := a[0].(StringV).Concrete()
		sub, ok2 := a[1].(StringV).Concrete()
		if !ok || !ok2 {
			panic(m.unsupported("strings.LastIndex on a symbolic string"))
		}
		return tt.BVConst(64, uint64(strings.LastIndex(s, sub)))
	}
	I["strings.Index"] = func(m *Machine, fr *frame, a []Value, c *ssa.CallCommon) Value {
		s, ok := a[0].(StringV).Concrete()
		sub, ok2 := a[1].(StringV).Concrete()
		if !ok || !ok2 {
			panic(m.unsupported("strings.Index on a symbolic string"))
		}
		return tt.BVConst(64, uint64(strings.Index(s, sub)))
	}
	// math/rand: a source is an opaque object; every draw is a fresh nondeterministic value
	I["math/rand.NewSource"] = func(m *Machine, fr *frame, a []Value, c *ssa.CallCommon) Value {
		return IfaceV{T: opaqueRandType, V: OpaqueV{Kind: "randsource", ID: tt.IntConst64(0)}}
	}
	I["math/rand.New"] = func(m *Machine, fr *frame, a []Value, c *ssa.CallCommon) Value {
		return PtrV{C: &Cell{Epoch: m.epoch, V: OpaqueV{Kind: "rand", ID: tt.IntConst64(0)}}}
	}
	I["(*math/rand.Rand).Int"] = func(m *Machine, fr *frame, a []Value, c *ssa.CallCommon) Value {
		return tt.BvBin(OBvAnd, m.Nondet("rand.Int", BV(64), "u64"), tt.BVConst(64, 1<<63-1))
	}
	I["(*math/rand.Rand).Intn"] = func(m *Machine, fr *frame, a []Value, c *ssa.CallCommon) Value {
		n := a[1].(*Term)
		r := m.Nondet("rand.Intn", BV(64), "u64")
		m.Assume(tt.BvCmp(OBvUlt, r, n))
		return r
	}
	I["math/rand.Intn"] = func(m *Machine, fr *frame, a []Value, c *ssa.CallCommon) Value {
		n := a[0].(*Term)
		r := m.Nondet("rand.Intn", BV(64), "u64")
		m.Assume(tt.BvCmp(OBvUlt, r, n))
		return r
	}
	I["reflect.ValueOf"] = func(m *Machine, fr *frame, a []Value, c *ssa.CallCommon) Value {
		return OpaqueV{Kind: "reflect.Value", ID: tt.IntConst64(0), Payload: a[0]}
	}
	I["(reflect.Value).Pointer"] = func(m *Machine, fr *frame, a []Value, c *ssa.CallCommon) Value {
		ov, ok := a[0].(OpaqueV)
		if !ok {
			panic(m.unsupported("reflect.Value.Pointer on non-engine value"))
		}
		iv, _ := ov.Payload.(IfaceV)
		switch x := iv.V.(type) {
		case SliceV:
			if x.Arr == nil {
				return tt.BVConst(64, 0)
			}
			if x.Off < len(x.Arr.Kids) {
				return tt.BVConst(64, m.cellAddr(x.Arr.Kids[x.Off]))
			}
			return tt.BVConst(64, m.cellAddr(x.Arr)+uint64(x.Off))
		case MapV:
			if x.M == nil {
				return tt.BVConst(64, 0)
			}
			return tt.BVConst(64, m.cellAddr(x.M.C))
		case PtrV:
			if x.IsNil() {
				return tt.BVConst(64, 0)
			}
			return tt.BVConst(64, m.cellAddr(x.C))
		}
		panic(m.unsupported(fmt.Sprintf("reflect.Value.Pointer of %T", iv.V)))
	}
	I["sort.Strings"] = func(m *Machine, fr *frame, a []Value, c *ssa.CallCommon) Value {
		s := a[0].(SliceV)
		cells := s.cells()
		for i := 1; i < len(cells); i++ {
			for j := i; j > 0; j-- {
				x, y := cells[j].V.(StringV), cells[j-1].V.(StringV)
				if !m.Branch(m.bytesLess(x.B, y.B, false)) {
					break
				}
				m.storeCell(cells[j], y)
				m.storeCell(cells[j-1], x)
			}
		}
		return nil
	}
	// time.Date on concrete arguments (location treated as UTC): Time{wall: nsec, ext: seconds since year 1, loc: nil}
	I["time.Date"] = func(m *Machine, fr *frame, a []Value, c *ssa.CallCommon) Value {
		var v [7]int
		for i := 0; i < 7; i++ {
			n, ok := m.concreteInt(a[i])
			if !ok {
				panic(m.unsupported("time.Date with symbolic argument"))
			}
			v[i] = int(n)
		}
		t := time.Date(v[0], time.Month(v[1]), v[2], v[3], v[4], v[5], v[6], time.UTC)
		const unixToInternal = 62135596800
		return StructV{tt.BVConst(64, uint64(t.Nanosecond())), tt.BVConst(64, uint64(t.Unix()+unixToInternal)), PtrV{}}
	}
}

// lenOnlyUse reports whether the value of the current call instruction is only passed to len().
func lenOnlyUse(fr *frame) bool {
	call, ok := fr.cur.(*ssa.Call)
	if !ok || call.Referrers() == nil {
		return false
	}
	n := 0
	for _, r := range *call.Referrers() {
		switch x := r.(type) {
		case *ssa.DebugRef:
		case *ssa.Call:
			b, ok := x.Call.Value.(*ssa.Builtin)
			if !ok || b.Name() != "len" {
				return false
			}
			n++
		default:
			return false
		}
	}
	return n > 0
}
