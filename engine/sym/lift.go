package sym

import (
	"fmt"
	"math/big"
	"strings"
)

// Integer lifting: the inverse of lower.go.  A query over bit-vectors (machine integers) and integers
// (math/big) is rewritten into pure (non-linear) integer arithmetic: a bit-vector of width w becomes its
// unsigned value in [0, 2^w), every wrapping operator gets an explicit `mod 2^w`.  The result is
// equisatisfiable with the original and is given to z3's non-linear integer solver, which decides
// proportional-split style queries (x*y div z with all three symbolic) that no bit-blaster finishes.
// Bitwise operators without an arithmetic meaning are not lifted: the query is then left to the other forms.

type Lifter struct {
	tt      *Terms
	memo    map[*Term]*Term
	failed  string
	ub, lb  map[*Term]*big.Int // facts about lifted terms, valid under the path condition they were learnt from
	nonzero map[*Term]bool
	rmemo   map[*Term]ival
}

func NewLifter(tt *Terms) *Lifter {
	return &Lifter{tt: tt, memo: map[*Term]*Term{}, ub: map[*Term]*big.Int{}, lb: map[*Term]*big.Int{},
		nonzero: map[*Term]bool{}, rmemo: map[*Term]ival{}}
}

const liftSuffix = "!int"

func liftName(n string, w int) string { return fmt.Sprintf("%s%s%d", n, liftSuffix, w) }

func pow2(w int) *big.Int { return new(big.Int).Lsh(big.NewInt(1), uint(w)) }

// Lift rewrites a Bool term; the result includes the range facts of every lifted symbol / UF application
// occurring in it. ok=false when some operator cannot be lifted.
func (lf *Lifter) Lift(t *Term) (*Term, bool) {
	lf.failed = ""
	r := lf.lift(t)
	if lf.failed != "" {
		return nil, false
	}
	facts := lf.rangeFacts(r)
	return lf.tt.And(r, facts), true
}

func (lf *Lifter) rangeFacts(t *Term) *Term {
	tt := lf.tt
	seen := map[*Term]bool{}
	acc := tt.True
	var walk func(x *Term)
	walk = func(x *Term) {
		if seen[x] {
			return
		}
		seen[x] = true
		if x.S.K == SInt && (x.Op == OSym || x.Op == OUF) {
			if i := strings.LastIndex(x.Name, liftSuffix); i >= 0 {
				var w int
				if _, err := fmt.Sscanf(x.Name[i+len(liftSuffix):], "%d", &w); err == nil && w > 0 {
					acc = tt.And(acc, tt.And(tt.ILe(tt.IntConst64(0), x), tt.ILt(x, tt.IntConst(pow2(w)))))
				}
			}
		}
		for _, a := range x.Args {
			walk(a)
		}
	}
	walk(t)
	return acc
}

func (lf *Lifter) fail(why string) *Term {
	if lf.failed == "" {
		lf.failed = why
	}
	return lf.tt.IntConst64(0)
}

func (lf *Lifter) lift(t *Term) *Term {
	if r, ok := lf.memo[t]; ok {
		return r
	}
	r := lf.lift1(t)
	lf.memo[t] = r
	return r
}

// modw wraps to w bits; the wrap is dropped when the interval facts show the value already fits.
func (lf *Lifter) modw(x *Term, w int) *Term {
	r := lf.rng(x)
	if r.lo != nil && r.hi != nil && r.lo.Sign() >= 0 && r.hi.Cmp(pow2(w)) < 0 {
		return x
	}
	return lf.tt.IBin(OIMod, x, lf.tt.IntConst(pow2(w)))
}

// signed value of an unsigned representative
func (lf *Lifter) signed(x *Term, w int) *Term {
	tt := lf.tt
	return tt.Ite(tt.ILt(x, tt.IntConst(pow2(w-1))), x, tt.IBin(OISub, x, tt.IntConst(pow2(w))))
}

func (lf *Lifter) constBig(t *Term) (*big.Int, bool) {
	if t.Op != OConst {
		return nil, false
	}
	if t.S.K == SInt {
		return t.Big, true
	}
	if t.S.K == SBV {
		if t.Big != nil {
			return t.Big, true
		}
		return new(big.Int).SetUint64(t.U), true
	}
	return nil, false
}

func (lf *Lifter) lift1(t *Term) *Term {
	tt := lf.tt
	switch t.S.K {
	case SBool:
		switch t.Op {
		case OConst:
			return t
		case OSym:
			return t
		case ONot:
			return tt.Not(lf.lift(t.Args[0]))
		case OAnd:
			return tt.And(lf.lift(t.Args[0]), lf.lift(t.Args[1]))
		case OOr:
			return tt.Or(lf.lift(t.Args[0]), lf.lift(t.Args[1]))
		case OIte:
			return tt.Ite(lf.lift(t.Args[0]), lf.lift(t.Args[1]), lf.lift(t.Args[2]))
		case OEq:
			return tt.Eq(lf.lift(t.Args[0]), lf.lift(t.Args[1]))
		case OBvUlt:
			return tt.ILt(lf.lift(t.Args[0]), lf.lift(t.Args[1]))
		case OBvUle:
			return tt.ILe(lf.lift(t.Args[0]), lf.lift(t.Args[1]))
		case OBvSlt, OBvSle:
			w := t.Args[0].S.W
			a, b := lf.signed(lf.lift(t.Args[0]), w), lf.signed(lf.lift(t.Args[1]), w)
			if t.Op == OBvSlt {
				return tt.ILt(a, b)
			}
			return tt.ILe(a, b)
		case OILt:
			return tt.ILt(lf.lift(t.Args[0]), lf.lift(t.Args[1]))
		case OILe:
			return tt.ILe(lf.lift(t.Args[0]), lf.lift(t.Args[1]))
		case OUF:
			args := make([]*Term, len(t.Args))
			for i, a := range t.Args {
				args[i] = lf.lift(a)
			}
			return tt.UF(t.Name+liftSuffix, BoolSort, args...)
		}
		return lf.fail(fmt.Sprintf("bool op %d", t.Op))
	case SInt:
		switch t.Op {
		case OConst, OSym:
			return t
		case OBV2Nat:
			return lf.lift(t.Args[0])
		case OIAdd, OISub, OIMul, OIDiv, OIMod:
			return tt.IBin(t.Op, lf.lift(t.Args[0]), lf.lift(t.Args[1]))
		case OINeg:
			return tt.INeg(lf.lift(t.Args[0]))
		case OIAbs:
			return tt.IAbs(lf.lift(t.Args[0]))
		case OIte:
			return tt.Ite(lf.lift(t.Args[0]), lf.lift(t.Args[1]), lf.lift(t.Args[2]))
		case OUF:
			args := make([]*Term, len(t.Args))
			for i, a := range t.Args {
				args[i] = lf.lift(a)
			}
			return tt.UF(t.Name+"!i", IntSort, args...)
		}
		return lf.fail(fmt.Sprintf("int op %d", t.Op))
	}
	// bit-vector -> unsigned value
	w := t.S.W
	switch t.Op {
	case OConst:
		c, _ := lf.constBig(t)
		return tt.IntConst(c)
	case OSym:
		return tt.Sym(liftName(t.Name, w), IntSort)
	case OBvAdd:
		return lf.modw(tt.IBin(OIAdd, lf.lift(t.Args[0]), lf.lift(t.Args[1])), w)
	case OBvSub:
		return lf.modw(tt.IBin(OISub, lf.lift(t.Args[0]), lf.lift(t.Args[1])), w)
	case OBvMul:
		return lf.modw(tt.IBin(OIMul, lf.lift(t.Args[0]), lf.lift(t.Args[1])), w)
	case OBvNeg:
		return lf.modw(tt.INeg(lf.lift(t.Args[0])), w)
	case OBvNot:
		return tt.IBin(OISub, tt.IntConst(new(big.Int).Sub(pow2(w), big.NewInt(1))), lf.lift(t.Args[0]))
	case OBvUDiv:
		a, b := lf.lift(t.Args[0]), lf.lift(t.Args[1])
		zero := tt.Eq(b, tt.IntConst64(0))
		return tt.Ite(zero, tt.IntConst(new(big.Int).Sub(pow2(w), big.NewInt(1))), tt.IBin(OIDiv, a, b))
	case OBvURem:
		a, b := lf.lift(t.Args[0]), lf.lift(t.Args[1])
		zero := tt.Eq(b, tt.IntConst64(0))
		return tt.Ite(zero, a, tt.IBin(OIMod, a, b))
	case OBvSDiv, OBvSRem:
		a, b := lf.signed(lf.lift(t.Args[0]), w), lf.signed(lf.lift(t.Args[1]), w)
		zero := tt.Eq(b, tt.IntConst64(0))
		aa, ab := tt.IAbs(a), tt.IAbs(b)
		q := tt.IBin(OIDiv, aa, ab) // truncated quotient magnitude
		r := tt.IBin(OIMod, aa, ab)
		neg := func(c, x *Term) *Term { return tt.Ite(c, tt.INeg(x), x) }
		aneg, bneg := tt.ILt(a, tt.IntConst64(0)), tt.ILt(b, tt.IntConst64(0))
		if t.Op == OBvSDiv {
			sq := neg(tt.Not(tt.Eq(aneg, bneg)), q)
			// SMT-LIB: x sdiv 0 = (x < 0 ? 1 : -1)
			dz := tt.Ite(aneg, tt.IntConst64(1), tt.IntConst64(-1))
			return lf.modw(tt.Ite(zero, dz, sq), w)
		}
		sr := neg(aneg, r)
		return lf.modw(tt.Ite(zero, a, sr), w)
	case OZext:
		return lf.lift(t.Args[0])
	case OSext:
		x := t.Args[0]
		lx := lf.lift(x)
		wx := x.S.W
		return tt.Ite(tt.ILt(lx, tt.IntConst(pow2(wx-1))), lx,
			tt.IBin(OIAdd, lx, tt.IntConst(new(big.Int).Sub(pow2(w), pow2(wx)))))
	case OExtract:
		hi, lo := t.P1, t.P2
		x := lf.lift(t.Args[0])
		if lo > 0 {
			x = tt.IBin(OIDiv, x, tt.IntConst(pow2(lo)))
		}
		if hi+1 < t.Args[0].S.W {
			x = lf.modw(x, hi-lo+1)
		}
		return x
	case OConcat:
		hiT, loT := t.Args[0], t.Args[1]
		return tt.IBin(OIAdd, tt.IBin(OIMul, lf.lift(hiT), tt.IntConst(pow2(loT.S.W))), lf.lift(loT))
	case OIte:
		return tt.Ite(lf.lift(t.Args[0]), lf.lift(t.Args[1]), lf.lift(t.Args[2]))
	case OInt2BV:
		return lf.modw(lf.lift(t.Args[0]), w)
	case OBvOr, OBvXor:
		// operands whose possibly-set bits are disjoint (byte assembly: b0 | b1<<8 | ...): or == xor == add
		alo, ahi := lf.bitRange(t.Args[0])
		blo, bhi := lf.bitRange(t.Args[1])
		if ahi <= blo || bhi <= alo {
			return tt.IBin(OIAdd, lf.lift(t.Args[0]), lf.lift(t.Args[1]))
		}
		return lf.fail("bvor/bvxor of overlapping operands")
	case OBvAnd:
		// x & (2^k - 1)  ==  x mod 2^k
		for i := 0; i < 2; i++ {
			if c, ok := lf.constBig(t.Args[i]); ok {
				k := c.BitLen()
				if new(big.Int).Add(c, big.NewInt(1)).Cmp(pow2(k)) == 0 {
					return tt.IBin(OIMod, lf.lift(t.Args[1-i]), tt.IntConst(pow2(k)))
				}
			}
		}
		return lf.fail("bvand without a low-bits mask")
	case OBvShl, OBvLshr:
		if c, ok := lf.constBig(t.Args[1]); ok && c.IsInt64() {
			k := int(c.Int64())
			x := lf.lift(t.Args[0])
			if k >= w {
				return tt.IntConst64(0)
			}
			if t.Op == OBvShl {
				return lf.modw(tt.IBin(OIMul, x, tt.IntConst(pow2(k))), w)
			}
			return tt.IBin(OIDiv, x, tt.IntConst(pow2(k)))
		}
		return lf.fail("shift by a symbolic amount")
	case OUF:
		args := make([]*Term, len(t.Args))
		for i, a := range t.Args {
			args[i] = lf.lift(a)
		}
		return tt.UF(liftName(t.Name, w), IntSort, args...)
	}
	return lf.fail(fmt.Sprintf("bit-vector op %s", opNames[t.Op]))
}

// bitRange returns [lo, hi) such that every bit of t outside the range is known to be zero.
func (lf *Lifter) bitRange(t *Term) (int, int) {
	w := t.S.W
	switch t.Op {
	case OConst:
		c, _ := lf.constBig(t)
		if c.Sign() == 0 {
			return 0, 0
		}
		return int(c.TrailingZeroBits()), c.BitLen()
	case OZext:
		return lf.bitRange(t.Args[0])
	case OConcat:
		hlo, hhi := lf.bitRange(t.Args[0])
		llo, lhi := lf.bitRange(t.Args[1])
		lw := t.Args[1].S.W
		if hhi == 0 {
			return llo, lhi
		}
		if lhi == 0 {
			return hlo + lw, hhi + lw
		}
		return llo, hhi + lw
	case OBvShl:
		if c, ok := lf.constBig(t.Args[1]); ok && c.IsInt64() {
			k := int(c.Int64())
			lo, hi := lf.bitRange(t.Args[0])
			if hi == 0 || k >= w {
				return 0, 0
			}
			if hi+k > w {
				hi = w - k
			}
			return lo + k, hi + k
		}
	case OBvLshr:
		if c, ok := lf.constBig(t.Args[1]); ok && c.IsInt64() {
			k := int(c.Int64())
			lo, hi := lf.bitRange(t.Args[0])
			if hi <= k {
				return 0, 0
			}
			if lo < k {
				lo = k
			}
			return lo - k, hi - k
		}
	case OBvOr, OBvXor, OBvAdd:
		if t.Op != OBvAdd {
			alo, ahi := lf.bitRange(t.Args[0])
			blo, bhi := lf.bitRange(t.Args[1])
			if ahi == 0 {
				return blo, bhi
			}
			if bhi == 0 {
				return alo, ahi
			}
			lo, hi := alo, ahi
			if blo < lo {
				lo = blo
			}
			if bhi > hi {
				hi = bhi
			}
			return lo, hi
		}
	case OBvAnd:
		alo, ahi := lf.bitRange(t.Args[0])
		blo, bhi := lf.bitRange(t.Args[1])
		lo, hi := alo, ahi
		if blo > lo {
			lo = blo
		}
		if bhi < hi {
			hi = bhi
		}
		if hi < lo {
			return 0, 0
		}
		return lo, hi
	case OIte:
		alo, ahi := lf.bitRange(t.Args[1])
		blo, bhi := lf.bitRange(t.Args[2])
		if ahi == 0 {
			return blo, bhi
		}
		if bhi == 0 {
			return alo, ahi
		}
		if blo < alo {
			alo = blo
		}
		if bhi > ahi {
			ahi = bhi
		}
		return alo, ahi
	}
	return 0, w
}

// ---- interval facts: used to drop `mod 2^w` where no wrap-around is possible under the path condition ----

type ival struct{ lo, hi *big.Int } // nil = unbounded on that side

// Learn records simple bounds stated by a path-condition conjunct (x <= c, c <= x, x != 0, ...), on the
// ORIGINAL term; the facts are only valid for queries that include that conjunct.
func (lf *Lifter) Learn(t *Term) {
	switch t.Op {
	case OAnd:
		lf.Learn(t.Args[0])
		lf.Learn(t.Args[1])
		return
	case ONot:
		x := t.Args[0]
		switch x.Op {
		case OBvUlt: // not (a < b)  ==  b <= a
			lf.learnLe(x.Args[1], x.Args[0], false)
		case OBvUle: // not (a <= b) ==  b < a
			lf.learnLe(x.Args[1], x.Args[0], true)
		case OILt:
			lf.learnLe(x.Args[1], x.Args[0], false)
		case OILe:
			lf.learnLe(x.Args[1], x.Args[0], true)
		case OEq:
			for i := 0; i < 2; i++ {
				if c, ok := lf.constBig(x.Args[i]); ok && c.Sign() == 0 && x.Args[1-i].S.K != SBool {
					lf.nonzero[lf.lift(x.Args[1-i])] = true
				}
			}
		}
		return
	case OBvUle, OILe:
		lf.learnLe(t.Args[0], t.Args[1], false)
	case OBvUlt, OILt:
		lf.learnLe(t.Args[0], t.Args[1], true)
	}
}

// learnLe: a <= b (strict: a < b) where one side is a constant.
func (lf *Lifter) learnLe(a, b *Term, strict bool) {
	if c, ok := lf.constBig(b); ok {
		hi := new(big.Int).Set(c)
		if strict {
			hi.Sub(hi, big.NewInt(1))
		}
		k := lf.lift(a)
		if old, ok := lf.ub[k]; !ok || hi.Cmp(old) < 0 {
			lf.ub[k] = hi
		}
		return
	}
	if c, ok := lf.constBig(a); ok {
		lo := new(big.Int).Set(c)
		if strict {
			lo.Add(lo, big.NewInt(1))
		}
		k := lf.lift(b)
		if old, ok := lf.lb[k]; !ok || lo.Cmp(old) > 0 {
			lf.lb[k] = lo
		}
	}
}

func minB(a, b *big.Int) *big.Int {
	if a == nil || b == nil {
		return nil
	}
	if a.Cmp(b) < 0 {
		return a
	}
	return b
}

func maxB(a, b *big.Int) *big.Int {
	if a == nil || b == nil {
		return nil
	}
	if a.Cmp(b) > 0 {
		return a
	}
	return b
}

// rng computes an interval for a LIFTED Int term.
func (lf *Lifter) rng(t *Term) ival {
	if r, ok := lf.rmemo[t]; ok {
		return r
	}
	r := lf.rng1(t)
	if u, ok := lf.ub[t]; ok && (r.hi == nil || u.Cmp(r.hi) < 0) {
		r.hi = u
	}
	if l, ok := lf.lb[t]; ok && (r.lo == nil || l.Cmp(r.lo) > 0) {
		r.lo = l
	}
	if lf.nonzero[t] && r.lo != nil && r.lo.Sign() == 0 {
		r.lo = big.NewInt(1)
	}
	lf.rmemo[t] = r
	return r
}

func (lf *Lifter) rng1(t *Term) ival {
	switch t.Op {
	case OConst:
		return ival{t.Big, t.Big}
	case OSym, OUF:
		if i := strings.LastIndex(t.Name, liftSuffix); i >= 0 {
			var w int
			if _, err := fmt.Sscanf(t.Name[i+len(liftSuffix):], "%d", &w); err == nil && w > 0 {
				return ival{big.NewInt(0), new(big.Int).Sub(pow2(w), big.NewInt(1))}
			}
		}
		return ival{}
	case OIAdd:
		a, b := lf.rng(t.Args[0]), lf.rng(t.Args[1])
		var r ival
		if a.lo != nil && b.lo != nil {
			r.lo = new(big.Int).Add(a.lo, b.lo)
		}
		if a.hi != nil && b.hi != nil {
			r.hi = new(big.Int).Add(a.hi, b.hi)
		}
		return r
	case OISub:
		a, b := lf.rng(t.Args[0]), lf.rng(t.Args[1])
		var r ival
		if a.lo != nil && b.hi != nil {
			r.lo = new(big.Int).Sub(a.lo, b.hi)
		}
		if a.hi != nil && b.lo != nil {
			r.hi = new(big.Int).Sub(a.hi, b.lo)
		}
		return r
	case OINeg:
		a := lf.rng(t.Args[0])
		var r ival
		if a.hi != nil {
			r.lo = new(big.Int).Neg(a.hi)
		}
		if a.lo != nil {
			r.hi = new(big.Int).Neg(a.lo)
		}
		return r
	case OIAbs:
		a := lf.rng(t.Args[0])
		if a.lo != nil && a.lo.Sign() >= 0 {
			return a
		}
		if a.lo != nil && a.hi != nil {
			return ival{big.NewInt(0), maxB(new(big.Int).Abs(a.lo), new(big.Int).Abs(a.hi))}
		}
		return ival{lo: big.NewInt(0)}
	case OIMul:
		a, b := lf.rng(t.Args[0]), lf.rng(t.Args[1])
		if a.lo != nil && b.lo != nil && a.lo.Sign() >= 0 && b.lo.Sign() >= 0 {
			r := ival{lo: new(big.Int).Mul(a.lo, b.lo)}
			if a.hi != nil && b.hi != nil {
				r.hi = new(big.Int).Mul(a.hi, b.hi)
			}
			return r
		}
		if a.lo != nil && a.hi != nil && b.lo != nil && b.hi != nil {
			ps := []*big.Int{new(big.Int).Mul(a.lo, b.lo), new(big.Int).Mul(a.lo, b.hi), new(big.Int).Mul(a.hi, b.lo), new(big.Int).Mul(a.hi, b.hi)}
			r := ival{ps[0], ps[0]}
			for _, p := range ps[1:] {
				r.lo, r.hi = minB(r.lo, p), maxB(r.hi, p)
			}
			return r
		}
		return ival{}
	case OIDiv:
		a, b := lf.rng(t.Args[0]), lf.rng(t.Args[1])
		if b.lo != nil && b.lo.Sign() >= 1 && a.lo != nil && a.lo.Sign() >= 0 {
			r := ival{lo: big.NewInt(0)}
			if a.hi != nil {
				r.hi = new(big.Int).Div(a.hi, b.lo)
			}
			if b.hi != nil {
				r.lo = new(big.Int).Div(a.lo, b.hi)
			}
			return r
		}
		return ival{}
	case OIMod:
		b := lf.rng(t.Args[1])
		if b.lo != nil && b.lo.Sign() >= 1 && b.hi != nil {
			return ival{big.NewInt(0), new(big.Int).Sub(b.hi, big.NewInt(1))}
		}
		return ival{}
	case OIte:
		// bvudiv pattern: ite(b = 0, K, a div b) with b >= 0
		c := t.Args[0]
		if c.Op == OEq && t.Args[2].Op == OIDiv {
			for i := 0; i < 2; i++ {
				if k, ok := lf.constBig(c.Args[i]); ok && k.Sign() == 0 && c.Args[1-i] == t.Args[2].Args[1] {
					a, b := lf.rng(t.Args[2].Args[0]), lf.rng(c.Args[1-i])
					if a.lo != nil && a.lo.Sign() >= 0 && b.lo != nil && b.lo.Sign() >= 0 {
						e := ival{big.NewInt(0), a.hi}
						th := lf.rng(t.Args[1])
						return ival{minB(e.lo, th.lo), maxB(e.hi, th.hi)}
					}
				}
			}
		}
		a, b := lf.rng(t.Args[1]), lf.rng(t.Args[2])
		return ival{minB(a.lo, b.lo), maxB(a.hi, b.hi)}
	}
	return ival{}
}
