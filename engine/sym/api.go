package sym

import (
	"fmt"
	"math/big"
	"os"
	"sort"
	"strings"

	"golang.org/x/tools/go/ssa"
)

// ---- nondet ----

func (m *Machine) nextName(name string) string {
	n := m.seq[name]
	m.seq[name] = n + 1
	if n == 0 {
		return name
	}
	return fmt.Sprintf("%s#%d", name, n)
}

// Nondet creates a fresh symbolic value and records it for replay.
func (m *Machine) Nondet(name string, s Sort, kind string) *Term {
	nm := m.nextName(name)
	t := m.TT.Sym(nm, s)
	m.nondets = append(m.nondets, nondetRec{name: nm, kind: kind, term: t})
	return t
}

func (m *Machine) NondetBool(name string) bool {
	t := m.Nondet(name, BoolSort, "bool")
	return m.Branch(t)
}

// NondetRange returns a concrete value in [0,n) chosen by forking.
func (m *Machine) NondetRange(name string, n int) int {
	if n <= 0 {
		panic(&pathEnd{endInfeasible, "nondetRange(0)"})
	}
	nm := m.nextName(name)
	t := m.TT.Sym(nm, BV(64))
	conds := make([]*Term, n)
	for i := range conds {
		conds[i] = m.TT.Eq(t, m.TT.BVConst(64, uint64(i)))
	}
	k := m.forkX(conds, true)
	m.nondets = append(m.nondets, nondetRec{name: nm, kind: "range", conc: fmt.Sprint(k)})
	return k
}

// ---- assertions ----

// Assert checks PC ∧ ¬c. On sat it records a violation with the model.
func (m *Machine) Assert(c *Term, label string) {
	sh := m.Sh
	sh.mu.Lock()
	sh.AssertSeen[label]++
	sh.Stats.Obligations++
	sh.mu.Unlock()
	if c.IsTrue() {
		sh.mu.Lock()
		sh.Stats.Trivial++
		sh.Stats.Discharged++
		sh.mu.Unlock()
		return
	}
	neg := m.TT.Not(c)
	r, model := m.decide(neg)
	switch r {
	case Unsat:
		sh.mu.Lock()
		sh.Stats.Discharged++
		sh.mu.Unlock()
		m.addPC(c, false)
	case Sat:
		m.reportViolation(label, model)
		// continue on the side where the assertion holds, if any
		if c.IsFalse() {
			panic(&pathEnd{endStop, "assertion failed"})
		}
		if m.checkPrimary(c) == Unsat {
			panic(&pathEnd{endStop, "assertion failed on whole path"})
		}
		m.addPC(c, false)
	default:
		sh.mu.Lock()
		sh.Incon["solver unknown on assertion "+label]++
		sh.mu.Unlock()
		m.addPC(c, false)
	}
}

// decide runs the final query PC ∧ extra through the portfolio. Each back end gets the form that suits it:
// the Int-lowered pure bit-vector form for the bit-blasters, the mixed Int/BV form for cvc5's integer lifting.
func (m *Machine) decide(extra *Term) (Result, map[string]*big.Int) {
	build := func(form int) ([]*Term, []*Term) {
		low := form == 1
		asserts := make([]*Term, 0, len(m.pc)+1)
		var lf *Lifter
		if form == 2 {
			// a lifter of its own for this query: interval facts learnt from THIS path condition let it drop
			// `mod 2^w` wherever no wrap-around is possible
			lf = NewLifter(m.TT)
			for _, c := range m.pc {
				lf.Learn(c)
			}
		}
		f := func(t *Term) *Term {
			switch form {
			case 1:
				return m.lowerTerm(t)
			case 2:
				r, ok := lf.Lift(t)
				if !ok {
					m.liftFailed = true
					return m.TT.True
				}
				return r
			}
			return t
		}
		for _, c := range m.pc {
			asserts = append(asserts, f(c))
		}
		asserts = append(asserts, f(extra))
		var want []*Term
		for _, n := range m.nondets {
			if n.term != nil {
				if low {
					want = append(want, m.wantTermLow(n.term))
				} else if form == 2 && n.term.S.K == SBV && n.term.Op == OSym {
					want = append(want, m.TT.Sym(liftName(n.term.Name, n.term.S.W), IntSort))
				} else {
					want = append(want, n.term)
				}
			}
		}
		return asserts, want
	}
	var res Result = Unknown
	var model map[string]*big.Int
	run := func(i int, needModel bool) (Result, map[string]*big.Int) {
		s := m.extra[i]
		m.liftFailed = false
		asserts, want := build(m.extraForm[i])
		if m.extraForm[i] == 2 && m.liftFailed {
			return Unknown, nil // some constraint has no integer form: this back end cannot decide the query
		}
		if !needModel {
			want = nil
		}
		t0 := s.Time
		r, mod := s.CheckStandalone(m.TT, asserts, want)
		m.Sh.mu.Lock()
		m.Sh.Stats.SolverTime[s.B.Name] += s.Time - t0
		m.Sh.Stats.SolverCalls[s.B.Name]++
		m.Sh.mu.Unlock()
		return r, mod
	}
	for i := range m.extra {
		r, mod := run(i, true)
		if r == Unknown {
			continue
		}
		res, model = r, mod
		if r == Unsat && m.Spec.Confirm {
			for j := i + 1; j < len(m.extra); j++ {
				r2, _ := run(j, false)
				if r2 == Sat {
					m.Sh.mu.Lock()
					m.Sh.Incon["solver disagreement ("+m.extra[i].B.Name+" unsat, "+m.extra[j].B.Name+" sat)"]++
					m.Sh.mu.Unlock()
					return Unknown, nil
				}
				if r2 == Unsat {
					break
				}
			}
		}
		break
	}
	if res == Unknown && os.Getenv("GOSMT_DUMP") != "" {
		for i, s := range m.extra {
			asserts, _ := build(m.extraForm[i])
			f, err := os.Create(fmt.Sprintf("%s/unknown-%d-%s.smt2", os.Getenv("GOSMT_DUMP"), m.Sh.Stats.Obligations, s.B.Name))
			if err == nil {
				sv := s.Log
				s.Log = f
				s.Reset()
				for _, a := range asserts {
					s.Assert(m.TT, a)
				}
				s.send("(check-sat)")
				s.in.Flush()
				s.Log = sv
				f.Close()
				s.dead = true
			}
		}
	}
	return res, model
}

func (m *Machine) reportViolation(label string, model map[string]*big.Int) {
	if model == nil {
		// no model yet (e.g. uncaught panic): get one for the bare path condition
		r, mod := m.decide(m.TT.True)
		if r == Unsat {
			return // path is infeasible after all
		}
		model = mod
	}
	v := &Violation{Label: label, Where: m.where()}
	if m.panicDetail != "" {
		v.Where = " " + m.panicDetail
	}
	v.Regions = append(v.Regions, m.regions...)
	for _, n := range m.nondets {
		e := ReplayEntry{Name: n.name, Kind: n.kind}
		if n.term == nil {
			e.Value = n.conc
		} else if mv := m.modelValue(model, n.term); mv != nil {
			e.Value = mv.String()
		} else {
			e.Value = "0"
		}
		v.Model = append(v.Model, e)
	}
	for i, c := range m.pc {
		if i >= 8 {
			break
		}
		v.PathCond = append(v.PathCond, c.Pretty(5))
	}
	sh := m.Sh
	sh.mu.Lock()
	defer sh.mu.Unlock()
	key := label + "|" + strings.Join(v.Regions, ",")
	if sh.seenViol[key] {
		sh.dupViol++
		return
	}
	sh.seenViol[key] = true
	sh.Violations = append(sh.Violations, v)
	if sh.Spec.StopAtFirst {
		sh.stop = true
		sh.cond.Broadcast()
	}
}

// ---- harness API intrinsics (functions named in the harness package) ----

func (m *Machine) str(v Value) string {
	s, ok := v.(StringV)
	if !ok {
		panic(m.unsupported("api: expected string"))
	}
	c, ok := s.Concrete()
	if !ok {
		panic(m.unsupported("api: label must be a concrete string"))
	}
	return c
}

func (m *Machine) apiCall(name string, fr *frame, args []Value, call *ssa.CallCommon) (Value, bool) {
	tt := m.TT
	switch name {
	case "nondetBool":
		return m.Nondet(m.str(args[0]), BoolSort, "bool"), true
	case "nondetU8":
		return m.Nondet(m.str(args[0]), BV(8), "u8"), true
	case "nondetU16":
		return m.Nondet(m.str(args[0]), BV(16), "u16"), true
	case "nondetU32":
		return m.Nondet(m.str(args[0]), BV(32), "u32"), true
	case "nondetU64":
		return m.Nondet(m.str(args[0]), BV(64), "u64"), true
	case "nondetI8":
		return m.Nondet(m.str(args[0]), BV(8), "i8"), true
	case "nondetI16":
		return m.Nondet(m.str(args[0]), BV(16), "i16"), true
	case "nondetI32":
		return m.Nondet(m.str(args[0]), BV(32), "i32"), true
	case "nondetI64":
		return m.Nondet(m.str(args[0]), BV(64), "i64"), true
	case "nondetInt":
		return m.Nondet(m.str(args[0]), BV(64), "i64"), true
	case "nondetRange":
		n, ok := m.concreteInt(args[1])
		if !ok {
			panic(m.unsupported("nondetRange with symbolic bound"))
		}
		return tt.BVConst(64, uint64(m.NondetRange(m.str(args[0]), int(n)))), true
	case "nondetBytes":
		n, ok := m.concreteInt(args[1])
		if !ok {
			panic(m.unsupported("nondetBytes with symbolic length"))
		}
		bs := make([]*Term, n)
		nm := m.str(args[0])
		for i := range bs {
			bs[i] = m.Nondet(fmt.Sprintf("%s[%d]", nm, i), BV(8), "u8")
		}
		return m.sliceFromBytes(bs), true
	case "nondetBig":
		// arbitrary integer with |v| < 2^bits
		bits, ok := m.concreteInt(args[1])
		if !ok {
			panic(m.unsupported("nondetBig with symbolic bits"))
		}
		t := m.Nondet(m.str(args[0]), IntSort, "int")
		m.lw.Bounds[t.Name] = int(bits)
		lim := tt.IntConst(new(big.Int).Lsh(big.NewInt(1), uint(bits)))
		m.Assume(tt.And(tt.ILt(tt.INeg(lim), t), tt.ILt(t, lim)))
		c := m.newCell(m.bigIntType())
		c.V = BigV{t}
		return PtrV{C: c}, true
	case "assume":
		m.Assume(args[0].(*Term))
		return nil, true
	case "assert":
		m.Assert(args[0].(*Term), m.str(args[1]))
		return nil, true
	case "cover":
		m.Sh.mu.Lock()
		m.Sh.Covers[m.str(args[0])]++
		m.Sh.mu.Unlock()
		return nil, true
	case "knownFinding":
		id := m.str(args[0])
		c := args[1].(*Term)
		m.Sh.mu.Lock()
		active := m.Sh.Known[id]
		m.Sh.mu.Unlock()
		in := m.Branch(c)
		if in {
			if active {
				m.regions = append(m.regions, id)
			}
		}
		return tt.Bool(in), true
	case "and":
		return tt.And(args[0].(*Term), args[1].(*Term)), true
	case "or":
		return tt.Or(args[0].(*Term), args[1].(*Term)), true
	case "implies":
		return tt.Implies(args[0].(*Term), args[1].(*Term)), true
	case "iteU64", "iteI64", "iteInt":
		return tt.Ite(args[0].(*Term), args[1].(*Term), args[2].(*Term)), true
	case "bytesEq":
		return m.bytesEq(m.bytesOfSlice(args[0].(SliceV)), m.bytesOfSlice(args[1].(SliceV))), true
	case "concretize":
		t := args[0].(*Term)
		lo, _ := m.concreteInt(args[1])
		hi, _ := m.concreteInt(args[2])
		inr := tt.And(tt.BvCmp(OBvSle, tt.BVConst(64, uint64(lo)), t), tt.BvCmp(OBvSle, t, tt.BVConst(64, uint64(hi))))
		m.Assume(inr)
		return tt.BVConst(64, uint64(m.Concretize(t, lo, hi, "concretize"))), true
	case "isSymbolic":
		t, ok := args[0].(*Term)
		return tt.Bool(ok && !t.IsConst()), true
	case "observe":
		return nil, true
	case "bigEq":
		return tt.Eq(m.bigOf(args[0]), m.bigOf(args[1])), true
	case "bigLt":
		return tt.ILt(m.bigOf(args[0]), m.bigOf(args[1])), true
	case "bigLe":
		return tt.ILe(m.bigOf(args[0]), m.bigOf(args[1])), true
	case "bigFromU64":
		c := m.newCell(m.bigIntType())
		c.V = BigV{tt.BV2Nat(args[0].(*Term))}
		return PtrV{C: c}, true
	case "bigFromI64":
		c := m.newCell(m.bigIntType())
		c.V = BigV{tt.BV2Int(args[0].(*Term))}
		return PtrV{C: c}, true
	case "lenOnlySlice":
		// a slice of which only the (symbolic) length may be observed
		return SliceV{SymLen: args[0].(*Term)}, true
	case "param":
		v, ok := m.Spec.Params[m.str(args[0])]
		if !ok {
			panic(m.unsupported("param " + m.str(args[0]) + " not set in spec"))
		}
		return tt.BVConst(64, uint64(v)), true
	case "unwindFail":
		panic(&pathEnd{endUnwind, m.str(args[0])})
	case "engineOnly":
		return tt.True, true
	case "pathStop":
		panic(&pathEnd{endStop, "pathStop"})
	}
	return nil, false
}

func (sh *Shared) SortedIncon() []string {
	var r []string
	for k, n := range sh.Incon {
		r = append(r, fmt.Sprintf("%s (x%d)", k, n))
	}
	sort.Strings(r)
	return r
}

// wantTerm is the solver-side symbol whose model value is needed for a nondet.
func (m *Machine) wantTermLow(t *Term) *Term {
	if t.S.K == SInt {
		if b, ok := m.lw.Bounds[t.Name]; ok {
			return m.TT.Sym(lowName(t.Name), BV(b+1))
		}
	}
	return t
}

func (m *Machine) modelValue(model map[string]*big.Int, t *Term) *big.Int {
	if model == nil {
		return nil
	}
	if t.S.K == SInt {
		if b, ok := m.lw.Bounds[t.Name]; ok {
			v := model[lowName(t.Name)]
			if v == nil {
				return model[t.Name]
			}
			// signed interpretation of a (b+1)-bit value
			if v.Bit(b) == 1 {
				return new(big.Int).Sub(v, new(big.Int).Lsh(big.NewInt(1), uint(b+1)))
			}
			return v
		}
	}
	if v, ok := model[t.Name]; ok {
		return v
	}
	if t.S.K == SBV {
		if v, ok := model[liftName(t.Name, t.S.W)]; ok {
			return v
		}
	}
	return model[t.Name]
}
