package sym

import (
	"math/big"

	"golang.org/x/tools/go/ssa"
)

// Arithmetic model of github.com/itchyny/base58-go (Bitcoin alphabet) and of the decimal text that
// common.Address.ToBase58 / AddressFromBase58 pass through it:
//
//   big.Int.String() of a symbolic n      -> the string "decimal text of n"            (StringV.DecOf)
//   []byte(that string)                   -> a byte slice carrying the same meaning     (SliceV.Dec)
//   Encode(slice with Dec = n), n > 0     -> k base-58 digits d_0..d_{k-1}, d_0 >= 1, sum d_i*58^(k-1-i) = n,
//                                            mapped through the alphabet (k is forked, 1..maxDigits)
//   Decode(chars)                         -> every char must be in the alphabet; n = sum digit_i*58^(L-1-i);
//                                            result carries Dec = n (leading '1's add only leading zeros
//                                            to the decimal text, which big.Int.SetString ignores)
//   string(slice with Dec = n)            -> DecOf n;   big.Int.SetString(DecOf n, 10) -> n, true
//
// Concrete inputs run the library's real code.

const b58Alphabet = "123456789ABCDEFGHJKLMNPQRSTUVWXYZabcdefghijkmnopqrstuvwxyz"

func (m *Machine) b58Char(d *Term) *Term { // digit (BV8, < 58) -> alphabet character
	tt := m.TT
	r := tt.BVConst(8, uint64(b58Alphabet[57]))
	for i := 56; i >= 0; i-- {
		r = tt.Ite(tt.Eq(d, tt.BVConst(8, uint64(i))), tt.BVConst(8, uint64(b58Alphabet[i])), r)
	}
	return r
}

func (m *Machine) b58Digit(c *Term) (*Term, *Term) { // character -> (digit BV8, valid)
	tt := m.TT
	r := tt.BVConst(8, 0)
	valid := tt.False
	for i := 57; i >= 0; i-- {
		is := tt.Eq(c, tt.BVConst(8, uint64(b58Alphabet[i])))
		r = tt.Ite(is, tt.BVConst(8, uint64(i)), r)
		valid = tt.Or(valid, is)
	}
	return r, valid
}

type b58Rec struct {
	n   *Term
	out []*Term
}

type b58Pos struct {
	rec *b58Rec
	i   int
}

func registerBase58Intrinsics(m *Machine) {
	m.b58pos = map[*Term]b58Pos{}
	I := m.intrinsic
	tt := m.TT
	const enc = "(*github.com/itchyny/base58-go.Encoding)."
	I[enc+"Encode"] = func(m *Machine, fr *frame, a []Value, c *ssa.CallCommon) Value {
		src := a[1].(SliceV)
		if src.Dec == nil {
			return m.call(c.StaticCallee(), a, nil)
		}
		n := src.Dec
		if rec, ok := m.b58enc[n]; ok {
			return TupleV{m.sliceFromBytes(append([]*Term{}, rec.out...)), IfaceV{}} // Encode is a function of n
		}
		if m.Branch(tt.ILt(n, tt.IntConst64(0))) {
			return TupleV{SliceV{}, m.freshError("negative number in base58 encoding")}
		}
		if m.Branch(tt.Eq(n, tt.IntConst64(0))) {
			return TupleV{m.sliceFromBytes([]*Term{tt.BVConst(8, uint64(b58Alphabet[0]))}), IfaceV{}}
		}
		maxDigits := 36
		conds := make([]*Term, maxDigits)
		p := big.NewInt(1)
		pows := []*big.Int{new(big.Int).Set(p)}
		for k := 1; k <= maxDigits; k++ {
			np := new(big.Int).Mul(p, big.NewInt(58))
			pows = append(pows, np)
			conds[k-1] = tt.And(tt.ILe(tt.IntConst(p), n), tt.ILt(n, tt.IntConst(np)))
			p = np
		}
		k := m.Fork(conds) + 1
		digits := make([]*Term, k)
		sum := tt.IntConst64(0)
		out := make([]*Term, k)
		for i := 0; i < k; i++ {
			d := tt.Sym(m.nextName("$b58digit"), BV(8))
			m.addPC(tt.BvCmp(OBvUlt, d, tt.BVConst(8, 58)), false)
			digits[i] = d
			sum = tt.IBin(OIAdd, sum, tt.IBin(OIMul, tt.BV2Nat(d), tt.IntConst(pows[k-1-i])))
			out[i] = m.b58Char(d)
			if m.b58inv == nil {
				m.b58inv = map[*Term]*Term{}
			}
			m.b58inv[out[i]] = d // a character produced by Encode decodes to its digit without a table search
		}
		m.addPC(tt.Eq(sum, n), false)
		if m.b58enc == nil {
			m.b58enc = map[*Term]*b58Rec{}
		}
		rec := &b58Rec{n: n, out: out}
		m.b58enc[n] = rec
		for i, o := range out {
			m.b58pos[o] = b58Pos{rec, i}
		}
		return TupleV{m.sliceFromBytes(out), IfaceV{}}
	}
	I[enc+"Decode"] = func(m *Machine, fr *frame, a []Value, c *ssa.CallCommon) Value {
		src := a[1].(SliceV)
		if src.SymLen != nil {
			panic(m.unsupported("base58 Decode of a length-only slice"))
		}
		bs := m.bytesOfSlice(src)
		allConst := true
		for _, b := range bs {
			allConst = allConst && b.IsConst()
		}
		if allConst || len(bs) == 0 {
			return m.call(c.StaticCallee(), a, nil)
		}
		// Decode(Encode(n)) = n: the characters are, in order, exactly one Encode result
		if p0, ok := m.b58pos[bs[0]]; ok && p0.i == 0 && len(p0.rec.out) == len(bs) {
			same := true
			for i, b := range bs {
				q, ok := m.b58pos[b]
				same = same && ok && q.rec == p0.rec && q.i == i
			}
			if same {
				return TupleV{SliceV{SymLen: tt.Sym(m.nextName("$b58declen"), BV(64)), Dec: p0.rec.n}, IfaceV{}}
			}
		}
		sum := tt.IntConst64(0)
		p := big.NewInt(1)
		for i := len(bs) - 1; i >= 0; i-- {
			d, valid := m.b58Digit(bs[i])
			if known, ok := m.b58inv[bs[i]]; ok {
				d, valid = known, tt.True
			}
			if !m.Branch(valid) {
				return TupleV{SliceV{}, m.freshError("invalid character in base58 string")}
			}
			sum = tt.IBin(OIAdd, sum, tt.IBin(OIMul, tt.BV2Nat(d), tt.IntConst(new(big.Int).Set(p))))
			p = new(big.Int).Mul(p, big.NewInt(58))
		}
		return TupleV{SliceV{SymLen: tt.Sym(m.nextName("$b58declen"), BV(64)), Dec: sum}, IfaceV{}}
	}
}
