package sym

import (
	"fmt"
	"math/big"
)

// Int lowering: every Int-sorted term the engine builds has a statically known magnitude bound
// (machine integers via bv2nat, constants, and symbolic big integers declared with a bit bound), so a
// query can be rewritten into pure bit-vector logic with widths chosen so that nothing ever wraps.
// The rewritten query is equisatisfiable with the mixed Int/BV one and is decided by bit-blasting.

type lowered struct {
	t *Term // BV term (signed two's complement) for Int-sorted inputs; rewritten term otherwise
	w int
}

type Lowerer struct {
	tt     *Terms
	memo   map[*Term]lowered
	Bounds map[string]int // Int symbol name -> magnitude bound in bits (|v| < 2^bits)
	failed string
}

func NewLowerer(tt *Terms) *Lowerer {
	return &Lowerer{tt: tt, memo: map[*Term]lowered{}, Bounds: map[string]int{}}
}

const lowerUFWidth = 640

func lowName(n string) string { return n + "!bv" }

// Lower rewrites a Bool- or BV-sorted term. ok=false when some Int symbol has no bound.
func (lw *Lowerer) Lower(t *Term) (*Term, bool) {
	lw.failed = ""
	r := lw.low(t)
	if lw.failed != "" {
		return nil, false
	}
	return r.t, true
}

func (lw *Lowerer) sext(x lowered, w int) *Term {
	if x.w == w {
		return x.t
	}
	if x.w > w {
		panic("lower: narrowing sext")
	}
	return lw.tt.Sext(w, x.t)
}

func (lw *Lowerer) konst(c *big.Int) lowered {
	w := c.BitLen() + 1
	m := new(big.Int).Lsh(big.NewInt(1), uint(w))
	v := new(big.Int).Mod(c, m)
	if w <= 64 {
		return lowered{lw.tt.BVConst(w, v.Uint64()), w}
	}
	return lowered{lw.tt.wideConst(w, v), w}
}

func (lw *Lowerer) zeroOf(w int) *Term {
	if w <= 64 {
		return lw.tt.BVConst(w, 0)
	}
	return lw.tt.wideConst(w, new(big.Int))
}

func (lw *Lowerer) low(t *Term) lowered {
	if r, ok := lw.memo[t]; ok {
		return r
	}
	r := lw.low1(t)
	lw.memo[t] = r
	return r
}

func (lw *Lowerer) low1(t *Term) lowered {
	tt := lw.tt
	if t.S.K == SInt {
		switch t.Op {
		case OConst:
			return lw.konst(t.Big)
		case OSym:
			b, ok := lw.Bounds[t.Name]
			if !ok {
				lw.failed = "unbounded Int symbol " + t.Name
				return lowered{tt.BVConst(1, 0), 1}
			}
			return lowered{tt.Sym(lowName(t.Name), BV(b+1)), b + 1}
		case OBV2Nat:
			x := lw.low(t.Args[0])
			w := t.Args[0].S.W + 1
			return lowered{tt.Zext(w, x.t), w}
		case OIAdd, OISub:
			a, b := lw.low(t.Args[0]), lw.low(t.Args[1])
			w := a.w
			if b.w > w {
				w = b.w
			}
			w++
			op := OBvAdd
			if t.Op == OISub {
				op = OBvSub
			}
			return lowered{tt.wideBin(op, lw.sext(a, w), lw.sext(b, w)), w}
		case OIMul:
			a, b := lw.low(t.Args[0]), lw.low(t.Args[1])
			w := a.w + b.w
			return lowered{tt.wideBin(OBvMul, lw.sext(a, w), lw.sext(b, w)), w}
		case OINeg:
			a := lw.low(t.Args[0])
			w := a.w + 1
			return lowered{tt.BvNeg(lw.sext(a, w)), w}
		case OIAbs:
			a := lw.low(t.Args[0])
			w := a.w + 1
			x := lw.sext(a, w)
			return lowered{tt.Ite(tt.wideCmp(OBvSlt, x, lw.zeroOf(w)), tt.BvNeg(x), x), w}
		case OIte:
			c := lw.low(t.Args[0])
			a, b := lw.low(t.Args[1]), lw.low(t.Args[2])
			w := a.w
			if b.w > w {
				w = b.w
			}
			return lowered{tt.Ite(c.t, lw.sext(a, w), lw.sext(b, w)), w}
		case OIDiv, OIMod:
			// SMT-LIB euclidean division: a = b*q + r, 0 <= r < |b|
			a, b := lw.low(t.Args[0]), lw.low(t.Args[1])
			w := a.w
			if b.w > w {
				w = b.w
			}
			w++
			x, y := lw.sext(a, w), lw.sext(b, w)
			zero := lw.zeroOf(w)
			r0 := tt.wideBin(OBvSRem, x, y) // sign follows x, |r0| < |y|
			yabs := tt.Ite(tt.wideCmp(OBvSlt, y, zero), tt.BvNeg(y), y)
			rneg := tt.wideCmp(OBvSlt, r0, zero)
			r := tt.Ite(rneg, tt.wideBin(OBvAdd, r0, yabs), r0)
			if t.Op == OIMod {
				return lowered{r, w}
			}
			q := tt.wideBin(OBvSDiv, tt.wideBin(OBvSub, x, r), y)
			return lowered{q, w}
		case OUF:
			var args []*Term
			for _, a := range t.Args {
				args = append(args, lw.ufArg(a))
			}
			return lowered{tt.UF(t.Name+"!bv", BV(lowerUFWidth), args...), lowerUFWidth}
		}
		lw.failed = fmt.Sprintf("cannot lower Int op %d", t.Op)
		return lowered{tt.BVConst(1, 0), 1}
	}
	// Bool / BV sorted
	switch t.Op {
	case OConst, OSym:
		return lowered{t, 0}
	case OILt, OILe:
		a, b := lw.low(t.Args[0]), lw.low(t.Args[1])
		w := a.w
		if b.w > w {
			w = b.w
		}
		op := OBvSlt
		if t.Op == OILe {
			op = OBvSle
		}
		return lowered{tt.wideCmp(op, lw.sext(a, w), lw.sext(b, w)), 0}
	case OEq:
		if t.Args[0].S.K == SInt {
			a, b := lw.low(t.Args[0]), lw.low(t.Args[1])
			w := a.w
			if b.w > w {
				w = b.w
			}
			return lowered{tt.Eq(lw.sext(a, w), lw.sext(b, w)), 0}
		}
	case OInt2BV:
		a := lw.low(t.Args[0])
		w := t.P1
		if a.w >= w {
			return lowered{tt.Extract(w-1, 0, a.t), 0}
		}
		return lowered{tt.Sext(w, a.t), 0}
	case OUF:
		var args []*Term
		changed := false
		for _, a := range t.Args {
			if a.S.K == SInt {
				args = append(args, lw.ufArg(a))
				changed = true
			} else {
				args = append(args, lw.low(a).t)
			}
		}
		if changed {
			return lowered{tt.UF(t.Name+"!bv", t.S, args...), 0}
		}
		return lowered{tt.UF(t.Name, t.S, args...), 0}
	}
	// generic: rebuild with lowered children when any changed
	changed := false
	args := make([]*Term, len(t.Args))
	for i, a := range t.Args {
		la := lw.low(a)
		args[i] = la.t
		if la.t != a {
			changed = true
		}
	}
	if !changed {
		return lowered{t, 0}
	}
	return lowered{lw.rebuild(t, args), 0}
}

func (lw *Lowerer) ufArg(a *Term) *Term {
	if a.S.K != SInt {
		return lw.low(a).t
	}
	l := lw.low(a)
	if l.w > lowerUFWidth {
		lw.failed = "UF argument wider than lowering width"
		return l.t
	}
	return lw.sext(l, lowerUFWidth)
}

func (lw *Lowerer) rebuild(t *Term, args []*Term) *Term {
	tt := lw.tt
	switch t.Op {
	case ONot:
		return tt.Not(args[0])
	case OAnd:
		return tt.And(args[0], args[1])
	case OOr:
		return tt.Or(args[0], args[1])
	case OIte:
		return tt.Ite(args[0], args[1], args[2])
	case OEq:
		return tt.Eq(args[0], args[1])
	case OBvNot:
		return tt.BvNot(args[0])
	case OBvNeg:
		return tt.BvNeg(args[0])
	case OExtract:
		return tt.Extract(t.P1, t.P2, args[0])
	case OZext:
		return tt.Zext(t.P1, args[0])
	case OSext:
		return tt.Sext(t.P1, args[0])
	case OConcat:
		return tt.Concat(args[0], args[1])
	case OBvUlt, OBvUle, OBvSlt, OBvSle:
		return tt.wideCmp(t.Op, args[0], args[1])
	case OBvAdd, OBvSub, OBvMul, OBvUDiv, OBvURem, OBvSDiv, OBvSRem, OBvAnd, OBvOr, OBvXor, OBvShl, OBvLshr, OBvAshr:
		return tt.wideBin(t.Op, args[0], args[1])
	}
	return tt.mk(t.Op, t.S, t.P1, t.P2, t.Name, args...)
}

// wideBin is BvBin that tolerates widths above 64 (no constant folding there).
func (tt *Terms) wideBin(op Op, a, b *Term) *Term {
	if a.S.W <= 64 {
		return tt.BvBin(op, a, b)
	}
	if a.S != b.S {
		panic(fmt.Sprintf("wideBin sort mismatch %v %v", a.S, b.S))
	}
	return tt.mk(op, a.S, 0, 0, "", a, b)
}

func (tt *Terms) wideCmp(op Op, a, b *Term) *Term {
	if a.S.W <= 64 {
		return tt.BvCmp(op, a, b)
	}
	if a.S != b.S {
		panic(fmt.Sprintf("wideCmp sort mismatch %v %v", a.S, b.S))
	}
	if a == b {
		return tt.Bool(op == OBvUle || op == OBvSle)
	}
	return tt.mk(op, BoolSort, 0, 0, "", a, b)
}
