package sym

import (
	"fmt"
	"go/types"
	"os"
	"path/filepath"
	"sort"
	"strings"

	"golang.org/x/tools/go/packages"
	"golang.org/x/tools/go/ssa"
	"golang.org/x/tools/go/ssa/ssautil"
)

// RepoDir is the tree under check: /repo. VERIF_REPO points the engine at another checkout (used only to run
// the checks against a seeded change inside its scratch worktree without touching /repo; evidence of such
// runs goes to a scratch directory, see cmd/check).
var RepoDir = repoDir()

func repoDir() string {
	if d := os.Getenv("VERIF_REPO"); d != "" {
		return d
	}
	return "/repo"
}
const RepoMod = "github.com/ontio/ontology"

// BuildOverlay maps virtual /repo paths to contents for the given harness files.
// files: real path -> package dir relative to /repo.
func BuildOverlay(harnessFiles map[string]string, apiTemplate string) (map[string][]byte, error) {
	ov := map[string][]byte{}
	pkgDirs := map[string]string{} // dir -> package name
	for real, dir := range harnessFiles {
		b, err := os.ReadFile(real)
		if err != nil {
			return nil, err
		}
		base := filepath.Base(real)
		ov[filepath.Join(RepoDir, dir, "zz_verif_"+base)] = b
		// package name from the file's package clause
		pn := ""
		for _, l := range strings.Split(string(b), "\n") {
			l = strings.TrimSpace(l)
			if strings.HasPrefix(l, "package ") {
				pn = strings.TrimSpace(strings.TrimPrefix(l, "package "))
				break
			}
		}
		if pn == "" {
			return nil, fmt.Errorf("no package clause in %s", real)
		}
		pkgDirs[dir] = pn
	}
	tmpl, err := os.ReadFile(apiTemplate)
	if err != nil {
		return nil, err
	}
	for dir, pn := range pkgDirs {
		ov[filepath.Join(RepoDir, dir, "zz_verif_api.go")] = []byte(strings.Replace(string(tmpl), "PKGNAME", pn, 1))
	}
	wasm, err := wasmStubSource()
	if err != nil {
		return nil, err
	}
	ov[filepath.Join(RepoDir, "smartcontract/service/wasmvm/wasmjit_runtime.go")] = wasm
	return ov, nil
}

func WasmStubSource() []byte { b, _ := wasmStubSource(); return b }

func wasmStubSource() ([]byte, error) {
	return []byte(`package wasmvm

import (
	"errors"

	"github.com/ontio/ontology/smartcontract/states"
)

const wasmjit_gas_mod uint64 = 200

func WasmjitValidate(wasmCode []byte) error { return nil }

func invokeJit(this *WasmVmService, contract *states.WasmContractParam, wasmCode []byte) ([]byte, error) {
	return nil, errors.New("wasm jit not available in the verification build")
}
`), nil
}

// initAllowed says which packages' initialisers the engine runs.
func initAllowed(path string) bool {
	if strings.HasPrefix(path, RepoMod+"/") || path == RepoMod {
		return true
	}
	switch path {
	case "errors", "io", "bytes", "encoding/binary", "strconv", "sort", "math", "unicode/utf8", "container/list", "container/heap",
		"encoding/hex", "github.com/syndtr/goleveldb/leveldb/errors",
		"github.com/syndtr/goleveldb/leveldb/util", "github.com/syndtr/goleveldb/leveldb/comparer", "github.com/laizy/bigint",
		"github.com/ethereum/go-ethereum/common", "github.com/itchyny/base58-go":
		return true
	}
	return false
}

// Load type-checks and builds SSA for the given package dirs (relative to /repo) with the overlay.
func Load(dirs []string, overlay map[string][]byte) (*Program, error) {
	env := append(os.Environ(), "GOFLAGS=-mod=mod", "GOPROXY=off", "GOSUMDB=off", "GOTOOLCHAIN=local", "CGO_ENABLED=1")
	cfg := &packages.Config{Mode: packages.LoadAllSyntax, Dir: RepoDir, Overlay: overlay, Env: env}
	var pats []string
	for _, d := range dirs {
		pats = append(pats, "./"+d)
	}
	pkgs, err := packages.Load(cfg, pats...)
	if err != nil {
		return nil, err
	}
	var errs []string
	packages.Visit(pkgs, nil, func(p *packages.Package) {
		for _, e := range p.Errors {
			errs = append(errs, e.Error())
		}
	})
	if len(errs) > 0 {
		if len(errs) > 10 {
			errs = errs[:10]
		}
		return nil, fmt.Errorf("package errors:\n%s", strings.Join(errs, "\n"))
	}
	prog, _ := ssautil.AllPackages(pkgs, ssa.InstantiateGenerics)
	prog.Build()
	P := &Program{SSA: prog, Fset: prog.Fset, Pkgs: map[string]*ssa.Package{}}
	for _, p := range prog.AllPackages() {
		P.Pkgs[p.Pkg.Path()] = p
	}
	// init order: DFS over imports
	seen := map[*types.Package]bool{}
	var visit func(tp *types.Package)
	visit = func(tp *types.Package) {
		if seen[tp] {
			return
		}
		seen[tp] = true
		imps := tp.Imports()
		sort.Slice(imps, func(i, j int) bool { return imps[i].Path() < imps[j].Path() })
		for _, ip := range imps {
			visit(ip)
		}
		if sp := prog.Package(tp); sp != nil && initAllowed(tp.Path()) {
			P.InitOrder = append(P.InitOrder, sp)
		}
	}
	for _, p := range pkgs {
		if p.Types != nil {
			visit(p.Types)
		}
	}
	return P, nil
}
