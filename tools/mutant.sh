#!/bin/bash
# usage: mutant.sh verify <worktree> <n>      -- confirm an agent-made mutant in its scratch worktree
#        mutant.sh check  <worktree> <n> <PROP> [tier] -- apply to /repo, run our check, revert
#        mutant.sh keep   <worktree> <n> <PROP> <name> -- store under /verif/seeded/<name>
export GOFLAGS=-mod=mod GOPROXY=off GOSUMDB=off GOTOOLCHAIN=local
cmd=$1; wt=$2; n=$3
d=$wt/mutants/$n
case $cmd in
verify)
  pkg=$(python3 -c "import json;print(json.load(open('$d/meta.json'))['demo_pkg_dir'])")
  run=$(python3 -c "import json,re;print(re.split(r'\s{2,}\(|\s+#', json.load(open('$d/meta.json'))['demo_run'])[0])")
  cd $wt && git checkout -q -- . && git apply $d/patch.diff || { echo "APPLY-FAILED"; exit 1; }
  touched=$(git diff --name-only | xargs -n1 dirname | sort -u | sed 's#^#./#')
  echo "touched: $touched"
  go build $touched 2>&1 | tail -3 && echo BUILD-OK
  go test -vet=off -count=1 $touched 2>&1 | tail -4
  cp $d/demo_test.go $pkg/zz_demo_test.go
  echo "--- demo with mutant (expect FAIL):"; (eval "$run" 2>&1 | tail -4)
  git checkout -q -- .
  echo "--- demo without mutant (expect ok):"; (eval "$run" 2>&1 | tail -3)
  rm -f $pkg/zz_demo_test.go
  git status --short | grep -v mutants/
  ;;
check)
  prop=$4; tier=${5:-quick}
  # the seeded change is applied inside its own scratch worktree and the engine is pointed there
  # (VERIF_REPO); /repo is never touched and the evidence of /repo is not rewritten
  cd $wt && git checkout -q -- . && git apply $d/patch.diff || { echo "APPLY-FAILED"; exit 1; }
  cd /verif && VERIF_REPO=$wt timeout 3000 ./bin/check $prop --tier $tier 2>&1 | grep -E "^VIOLATION|^KNOWN|^OK|^INCONCLUSIVE|harness=" | cut -c1-260 | head -12
  echo "exit=${PIPESTATUS[0]}"
  cd $wt && git checkout -q -- . && git status --short | grep -v mutants/
  ;;
keep)
  prop=$4; name=$5
  mkdir -p /verif/seeded/$name && cp $d/patch.diff $d/demo_test.go $d/meta.json /verif/seeded/$name/
  ;;
esac
