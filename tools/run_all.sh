#!/bin/bash
# Runs every registered check's quick (or given tier) command on the current tree; prints a summary.
tier=${1:-quick}
cd /verif
ids=$(python3 -c "import json;print(' '.join(c['property_id'] for c in json.load(open('MANIFEST.json'))['checks']))")
for id in $ids; do
  s=$(date +%s)
  out=$(timeout 3600 ./bin/check $id --tier $tier 2>&1); rc=$?
  e=$(date +%s)
  echo "$id rc=$rc $((e-s))s $(echo "$out" | grep -E '^(OK|VIOLATION|INCONCLUSIVE)' | head -1 | cut -c1-150)"
  echo "$out" | grep -E '^KNOWN-FINDING' | cut -c1-120 | sed 's/^/    /'
done
