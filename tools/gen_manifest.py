#!/usr/bin/env python3
"""Regenerates /verif/MANIFEST.json from harness/*/spec.json (only specs with "registered": true) and tools/not_applicable.json."""
import json, glob, os
V='/verif'
props=[json.loads(l)['id'] for l in open(f'{V}/properties.jsonl')]
na=json.load(open(f'{V}/tools/not_applicable.json'))
checks=[]; served=[]
for pid in props:
    p=f'{V}/harness/{pid}/spec.json'
    if not os.path.exists(p): continue
    s=json.load(open(p))
    if not s.get('registered'): continue
    served.append(pid)
    c={
     "property_id": pid,
     "quick_cmd": f"./bin/check {pid} --tier quick",
     "evidence_file": f"/verif/evidence/{pid}.json",
     "replay_cmd_template": f"./bin/check {pid} --replay {{path}}",
     "engine": "gosmt",
     "level_claimed": {"category": s.get('level','other'), "text": s['level_text'], "design_ref": f"DESIGN.md section 5, {pid}"},
     "level_note": s['level_note'],
     "technique": s.get('technique', "symbolic execution of go/ssa to SMT-LIB2; z3/cvc5 verdict per path within stated bounds"),
    }
    if s.get('thorough', True):
        c["thorough_cmd"]=f"./bin/check {pid} --tier thorough"
    checks.append(c)
nal=[]
for pid in props:
    if pid in served: continue
    nal.append({"property_id": pid, "reason": na.get(pid, "solver-based check not built yet in this session (see DESIGN.md section 5 for the plan)")})
m={
 "version": 1,
 "setup_cmd": "cd /verif/engine && GOFLAGS=-mod=mod GOPROXY=off GOSUMDB=off GOTOOLCHAIN=local go build -o /verif/bin/check ./cmd/check",
 "hooks": {
  "guard": "verif",
  "enable": "none needed: harnesses, the wasm-jit stub and replay tests are injected as build overlays (go/packages Overlay, go test -overlay); nothing is written into /repo",
  "baseline_off_cmd": json.load(open('/root/.vp/BASELINE.json'))['cmd'],
  "source_commits": [],
  "add_only": True
 },
 "engines": [{"name": "gosmt", "path": "/verif/engine", "serves_properties": served,
   "kind_free_text": "path-forking symbolic interpreter of go/ssa (rebuilt from /repo's working tree on every run) emitting SMT-LIB2 to z3 4.8.12 / z3 5.1 / cvc5 (bv-as-int)"}],
 "checks": checks,
 "notes": "Every check is bounded SMT checking of the real code; a green result holds for all inputs inside the bounds recorded in the evidence file, nothing outside. Exit 3 + INCONCLUSIVE = solver unknown / unwinding bound / unsupported construct (never reported as success). fix: commits in /repo and known findings are listed in /verif/known_findings.json.",
 "not_applicable": nal
}
json.dump(m, open(f'{V}/MANIFEST.json','w'), indent=1)
print("checks:", served, "n/a:", len(nal))
