#!/bin/bash
# Runs every registered thorough command with a wall-clock cap; prints rc and time (124 = cap hit).
cap=${1:-330}
cd /verif
ids=$(python3 -c "import json;print(' '.join(c['property_id'] for c in json.load(open('MANIFEST.json'))['checks'] if 'thorough_cmd' in c))")
for id in $ids; do
  s=$(date +%s)
  out=$(timeout $cap ./bin/check $id --tier thorough 2>&1); rc=$?
  e=$(date +%s)
  echo "$id rc=$rc $((e-s))s $(echo "$out" | grep -E '^(OK|VIOLATION|INCONCLUSIVE)' | head -1 | cut -c1-150)"
done
