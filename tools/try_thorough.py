#!/usr/bin/env python3
"""try_thorough.py <ID> [cap_seconds]: runs the thorough tier with the bounds first planned for it
(params_thorough_planned in spec.json); registers them as the thorough bounds only if the run ends OK inside the cap."""
import json, subprocess, sys, time
pid = sys.argv[1]; cap = int(sys.argv[2]) if len(sys.argv) > 2 else 400
p = f'/verif/harness/{pid}/spec.json'
orig = open(p).read()
d = json.loads(orig)
ch = False
for h in d['harnesses']:
    pl = h.get('params_thorough_planned')
    if pl and h.get('params', {}).get('thorough') != pl:
        h['params']['thorough'] = pl; ch = True
if not ch:
    print(pid, 'nothing planned'); sys.exit(0)
open(p, 'w').write(json.dumps(d, indent=1))
t = time.time()
try:
    r = subprocess.run(['./bin/check', pid, '--tier', 'thorough'], cwd='/verif', capture_output=True, text=True, timeout=cap)
    ok = r.returncode == 0
    last = [l for l in r.stdout.splitlines() if l.startswith(('OK', 'VIOLATION', 'INCONCLUSIVE'))][:1]
except subprocess.TimeoutExpired:
    ok = False; last = ['cap hit']
    subprocess.run(['pkill', '-x', 'check'])
print(pid, 'ok' if ok else 'NOT registered', int(time.time() - t), 's', last)
if not ok:
    open(p, 'w').write(orig)
